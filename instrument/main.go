// Command instrument rewrites a scratch copy of gogpu/naga so that the
// simulator (verif/simrt) owns goroutine scheduling and map-iteration order.
//
// It type-checks the tree and applies byte-offset text patches only: no line of
// the original source moves, no comment is lost, and nothing is reformatted, so
// file:line positions in the instrumented tree equal those in /repo.
//
//	simrt.Yield(<site>);          after the '{' of every function body,
//	                              function literal, for body and range body
//	range simrt.RangeMap(X, <n>)  for every `range X` with X of map type that
//	                              binds a key or a value
//	sync.{Mutex,RWMutex,Once,Pool} -> simrt equivalents (latent seams)
//	zz_simrt_globals.go           per package: registers every package-level
//	                              variable with simrt (shared-state monitor)
//
// It also writes the site table and a seam audit: every construct in library
// code that the simulator does NOT own (go statements, channels, select,
// time, rand, os, unsafe, reflect-based map walks, maps.Keys/Values/All ...).
package main

import (
	"encoding/json"
	"flag"
	"fmt"
	"go/ast"
	"go/token"
	"go/types"
	"os"
	"path/filepath"
	"sort"
	"strings"

	"golang.org/x/tools/go/packages"
)

const simrtImport = "github.com/gogpu/naga/zverif/simrt"

type patch struct {
	off  int
	text string
	// replace [off, end) when end > off
	end int
}

type site struct {
	ID   int    `json:"id"`
	Kind string `json:"kind"` // func, lit, for, range, maprange
	Pos  string `json:"pos"`  // relative file:line
	Func string `json:"func"`
}

type auditItem struct {
	Kind string `json:"kind"`
	Pos  string `json:"pos"`
	Text string `json:"text"`
}

type output struct {
	YieldSites  int `json:"yield_sites"`
	MapSites    int `json:"map_sites"`
	Globals     int `json:"globals"`
	SyncSeams   int `json:"sync_seams"`
	EnvSeams    int `json:"env_seams"`
	WriteYields int `json:"write_yield_sites"`
	RaceVars    int `json:"race_tracked_variables"`
	TouchSites  int `json:"access_sites"`
	// RaceExemptPkgs: packages using synchronisation the simulator does not
	// model (channels, WaitGroup, Cond, atomics, goroutines): accesses to their
	// package-level variables are not judged by the race detector.
	RaceExemptPkgs []string `json:"race_exempt_pkgs"`
	// Coarse: the tree starts goroutines / uses channels in library code; only
	// the map-order seam and the package-variable registry were generated.
	Coarse        bool     `json:"coarse"`
	CoarseReasons []string `json:"coarse_reasons,omitempty"`
	Packages      []string `json:"packages"`
	// SyncPkgs: packages (relative to the module) that use synchronisation
	// primitives or atomics: writes to their package-level state may be
	// synchronised, so I-GLOBAL does not treat them as races.
	SyncPkgs []string    `json:"sync_pkgs"`
	Audit    []auditItem `json:"audit"`
	Yields   []site      `json:"-"`
	Maps     []site      `json:"maps"`
}

func excluded(pkgPath string) bool {
	rel := strings.TrimPrefix(pkgPath, "github.com/gogpu/naga")
	for _, p := range []string{"/cmd", "/internal/dxcvalidator", "/snapshot", "/zverif", "/tmp", "/scripts"} {
		if rel == p || strings.HasPrefix(rel, p+"/") {
			return true
		}
	}
	return false
}

func main() {
	src := flag.String("src", "", "scratch copy of the repository (modified in place)")
	outPath := flag.String("out", "", "where to write sites/audit JSON")
	flag.Parse()
	if *src == "" || *outPath == "" {
		fmt.Fprintln(os.Stderr, "usage: instrument -src DIR -out FILE")
		os.Exit(2)
	}
	root, err := filepath.Abs(*src)
	if err != nil {
		die(err)
	}
	cfg := &packages.Config{
		Dir:   root,
		Mode:  packages.NeedName | packages.NeedFiles | packages.NeedCompiledGoFiles | packages.NeedSyntax | packages.NeedTypes | packages.NeedTypesInfo | packages.NeedImports,
		Tests: false,
	}
	pkgs, err := packages.Load(cfg, "./...")
	if err != nil {
		die(err)
	}
	sort.Slice(pkgs, func(i, j int) bool { return pkgs[i].PkgPath < pkgs[j].PkgPath })
	var out output
	yieldID, mapID := 0, 0
	// Pre-scan: does library code start goroutines or use channels / WaitGroup /
	// Cond / errgroup? Then operations cannot be interleaved by a cooperative
	// scheduler (their inner goroutines run for real). The tree is instrumented
	// in COARSE mode: only the map-order seam and the package-variable registry;
	// every operation is one atomic scheduler step.
	for _, pkg := range pkgs {
		if excluded(pkg.PkgPath) || pkg.Name == "main" {
			continue
		}
		for _, f := range pkg.Syntax {
			fname := pkg.Fset.File(f.Pos()).Name()
			if strings.HasSuffix(fname, "_test.go") {
				continue
			}
			rel, _ := filepath.Rel(root, fname)
			ast.Inspect(f, func(n ast.Node) bool {
				why := ""
				switch x := n.(type) {
				case *ast.GoStmt:
					why = "go statement"
				case *ast.SelectStmt:
					why = "select statement"
				case *ast.SendStmt:
					why = "channel send"
				case *ast.UnaryExpr:
					if x.Op == token.ARROW {
						why = "channel receive"
					}
				case *ast.SelectorExpr:
					if id, ok := x.X.(*ast.Ident); ok {
						if pn, ok := pkg.TypesInfo.Uses[id].(*types.PkgName); ok {
							switch pn.Imported().Path() + "." + x.Sel.Name {
							case "sync.WaitGroup", "sync.Cond", "sync.NewCond":
								why = "sync." + x.Sel.Name
							}
							if pn.Imported().Path() == "golang.org/x/sync/errgroup" {
								why = "errgroup"
							}
						}
					}
				}
				if why != "" {
					out.Coarse = true
					out.CoarseReasons = append(out.CoarseReasons, fmt.Sprintf("%s:%d %s", rel, pkg.Fset.Position(n.Pos()).Line, why))
				}
				return true
			})
		}
	}
	sort.Strings(out.CoarseReasons)
	coarse := out.Coarse
	raceIDs := map[types.Object]int{}
	var raceNames []string
	for _, pkg := range pkgs {
		if excluded(pkg.PkgPath) {
			continue
		}
		if len(pkg.Errors) > 0 {
			for _, e := range pkg.Errors {
				fmt.Fprintln(os.Stderr, "instrument: type error:", e)
			}
			os.Exit(2)
		}
		if pkg.Name == "main" {
			continue
		}
		out.Packages = append(out.Packages, pkg.PkgPath)
		var globals []string
		pkgSync := false
		relPkg := strings.TrimPrefix(pkg.PkgPath, "github.com/gogpu/naga/")
		if pkg.Types != nil {
			scope := pkg.Types.Scope()
			names := scope.Names()
			sort.Strings(names)
			for _, n := range names {
				v, ok := scope.Lookup(n).(*types.Var)
				if !ok || n == "_" || syncType(v.Type()) {
					continue
				}
				raceIDs[v] = len(raceNames) + 1
				raceNames = append(raceNames, relPkg+"."+n)
			}
		}
		files := append([]*ast.File(nil), pkg.Syntax...)
		sort.Slice(files, func(i, j int) bool {
			return pkg.Fset.File(files[i].Pos()).Name() < pkg.Fset.File(files[j].Pos()).Name()
		})
		for _, f := range files {
			tf := pkg.Fset.File(f.Pos())
			fname := tf.Name()
			if strings.HasSuffix(fname, "_test.go") {
				continue
			}
			rel, _ := filepath.Rel(root, fname)
			posOf := func(p token.Pos) string {
				return fmt.Sprintf("%s:%d", rel, pkg.Fset.Position(p).Line)
			}
			var patches []patch
			usesSimrt := false
			syncName := ""                   // local name of the sync import when a use was redirected
			keepAlive := map[string]string{} // import name -> declaration that keeps it referenced
			// enclosing function names for site descriptions
			var funcStack []string
			curFunc := func() string {
				if len(funcStack) == 0 {
					return ""
				}
				return funcStack[len(funcStack)-1]
			}
			addYield := func(lb token.Pos, kind string) {
				if coarse {
					return
				}
				yieldID++
				patches = append(patches, patch{off: tf.Offset(lb) + 1, text: fmt.Sprintf("simrt.Yield(%d);", yieldID)})
				out.Yields = append(out.Yields, site{ID: yieldID, Kind: kind, Pos: posOf(lb), Func: curFunc()})
				usesSimrt = true
			}
			// package-level variables
			for _, d := range f.Decls {
				gd, ok := d.(*ast.GenDecl)
				if !ok || gd.Tok != token.VAR {
					continue
				}
				for _, sp := range gd.Specs {
					for _, n := range sp.(*ast.ValueSpec).Names {
						if n.Name != "_" {
							globals = append(globals, n.Name)
						}
					}
				}
			}
			var walk func(n ast.Node) bool
			walk = func(n ast.Node) bool {
				switch x := n.(type) {
				case *ast.FuncDecl:
					if x.Body == nil {
						return false
					}
					name := x.Name.Name
					if x.Recv != nil && len(x.Recv.List) > 0 {
						name = recvName(x.Recv.List[0].Type) + "." + name
					}
					funcStack = append(funcStack, name)
					addYield(x.Body.Lbrace, "func")
					ast.Inspect(x.Body, walk)
					funcStack = funcStack[:len(funcStack)-1]
					return false
				case *ast.FuncLit:
					addYield(x.Body.Lbrace, "lit")
				case *ast.ForStmt:
					addYield(x.Body.Lbrace, "for")
				case *ast.RangeStmt:
					addYield(x.Body.Lbrace, "range")
					if tv, ok := pkg.TypesInfo.Types[x.X]; ok {
						if _, isMap := coreType(tv.Type).(*types.Map); isMap {
							if x.Key != nil || x.Value != nil {
								mapID++
								patches = append(patches,
									patch{off: tf.Offset(x.X.Pos()), text: "simrt.RangeMap("},
									patch{off: tf.Offset(x.X.End()), text: fmt.Sprintf(", %d)", mapID)})
								out.Maps = append(out.Maps, site{ID: mapID, Kind: "maprange", Pos: posOf(x.Pos()), Func: curFunc()})
								usesSimrt = true
							} else {
								// `for range m`: order unobservable.
							}
						}
						if _, isChan := coreType(tv.Type).(*types.Chan); isChan {
							out.Audit = append(out.Audit, auditItem{"chan-range", posOf(x.Pos()), "range over channel"})
						}
					}
				case *ast.BlockStmt:
					if !coarse {
						writeYields(x.List, tf, &patches, &yieldID, &out, posOf, curFunc, &usesSimrt)
						touches(x.List, tf, &patches, pkg.TypesInfo, raceIDs, &out, &usesSimrt)
					}
				case *ast.CaseClause:
					if !coarse {
						writeYields(x.Body, tf, &patches, &yieldID, &out, posOf, curFunc, &usesSimrt)
						touches(x.Body, tf, &patches, pkg.TypesInfo, raceIDs, &out, &usesSimrt)
					}
				case *ast.CommClause:
					if !coarse {
						writeYields(x.Body, tf, &patches, &yieldID, &out, posOf, curFunc, &usesSimrt)
						touches(x.Body, tf, &patches, pkg.TypesInfo, raceIDs, &out, &usesSimrt)
					}
				case *ast.GoStmt:
					out.Audit = append(out.Audit, auditItem{"go", posOf(x.Pos()), "go statement"})
				case *ast.SelectStmt:
					out.Audit = append(out.Audit, auditItem{"select", posOf(x.Pos()), "select statement"})
				case *ast.SendStmt:
					out.Audit = append(out.Audit, auditItem{"chan-send", posOf(x.Pos()), "channel send"})
				case *ast.UnaryExpr:
					if x.Op == token.ARROW {
						out.Audit = append(out.Audit, auditItem{"chan-recv", posOf(x.Pos()), "channel receive"})
					}
				case *ast.SelectorExpr:
					if id, ok := x.X.(*ast.Ident); ok {
						if pn, ok := pkg.TypesInfo.Uses[id].(*types.PkgName); ok {
							path := pn.Imported().Path()
							sel := x.Sel.Name
							switch path {
							case "sync":
								switch sel {
								case "Mutex", "RWMutex", "Once", "Pool":
									if coarse {
										// real goroutines inside operations need the real primitives
										pkgSync = true
										break
									}
									// latent seam: redirect the type to simrt
									patches = append(patches, patch{off: tf.Offset(x.Pos()), end: tf.Offset(id.End()), text: "simrt"})
									out.SyncSeams++
									usesSimrt = true
									syncName = id.Name
									pkgSync = true
								default:
									out.Audit = append(out.Audit, auditItem{"sync", posOf(x.Pos()), "sync." + sel})
									pkgSync = true
								}
							case "sync/atomic":
								out.Audit = append(out.Audit, auditItem{"pkg", posOf(x.Pos()), path + "." + sel})
								pkgSync = true
							case "time", "os", "math/rand", "math/rand/v2":
								// latent seams for the process environment: the
								// simulator decides what these return
								if repl, ok := envSeams[path+"."+sel]; ok && !coarse {
									patches = append(patches, patch{off: tf.Offset(x.Pos()), end: tf.Offset(x.End()), text: "simrt." + repl})
									out.EnvSeams++
									usesSimrt = true
									keepAlive[id.Name] = envKeep[path]
								} else {
									out.Audit = append(out.Audit, auditItem{"pkg", posOf(x.Pos()), path + "." + sel})
								}
							case "crypto/rand", "os/exec", "os/signal", "runtime", "unsafe", "context", "net", "io/ioutil", "syscall":
								out.Audit = append(out.Audit, auditItem{"pkg", posOf(x.Pos()), path + "." + sel})
							case "maps":
								switch sel {
								case "Keys", "Values", "All":
									out.Audit = append(out.Audit, auditItem{"maps-iter", posOf(x.Pos()), "maps." + sel})
								}
							case "reflect":
								switch sel {
								case "MapRange", "MapKeys":
									out.Audit = append(out.Audit, auditItem{"reflect-map", posOf(x.Pos()), "reflect." + sel})
								}
							}
						}
					}
					// reflect.Value.MapRange / MapKeys method calls
					if s, ok := pkg.TypesInfo.Selections[x]; ok {
						if fn, ok := s.Obj().(*types.Func); ok && fn.Pkg() != nil && fn.Pkg().Path() == "reflect" {
							if fn.Name() == "MapRange" || fn.Name() == "MapKeys" {
								out.Audit = append(out.Audit, auditItem{"reflect-map", posOf(x.Pos()), "reflect.Value." + fn.Name()})
							}
						}
					}
				}
				return true
			}
			for _, d := range f.Decls {
				ast.Inspect(d, walk)
			}
			if !usesSimrt {
				continue
			}
			// import, on the package clause line
			patches = append(patches, patch{off: tf.Offset(f.Name.End()), text: `; import simrt "` + simrtImport + `"`})
			if syncName != "" {
				// every use of the sync import may have been redirected: keep it referenced
				patches = append(patches, patch{off: tf.Size(), text: "\nvar _ " + syncName + ".Locker\n"})
			}
			for name, decl := range keepAlive {
				patches = append(patches, patch{off: tf.Size(), text: "\nvar _ " + name + "." + decl + "\n"})
			}
			data, err := os.ReadFile(fname)
			if err != nil {
				die(err)
			}
			sort.SliceStable(patches, func(i, j int) bool { return patches[i].off > patches[j].off })
			for _, p := range patches {
				end := p.off
				if p.end > p.off {
					end = p.end
				}
				data = append(data[:p.off:p.off], append([]byte(p.text), data[end:]...)...)
			}
			if err := os.WriteFile(fname, data, 0o644); err != nil {
				die(err)
			}
		}
		if pkgSync {
			out.SyncPkgs = append(out.SyncPkgs, strings.TrimPrefix(pkg.PkgPath, "github.com/gogpu/naga/"))
		}
		if len(globals) > 0 && len(pkg.GoFiles) > 0 {
			sort.Strings(globals)
			var b strings.Builder
			fmt.Fprintf(&b, "package %s\n\nimport simrt %q\n\nfunc init() {\n", pkg.Name, simrtImport)
			for _, g := range globals {
				fmt.Fprintf(&b, "\tsimrt.RegisterGlobal(%q, &%s)\n", strings.TrimPrefix(pkg.PkgPath, "github.com/gogpu/naga/")+"."+g, g)
				out.Globals++
			}
			for i, n := range raceNames {
				if strings.HasPrefix(n, relPkg+".") && !strings.Contains(strings.TrimPrefix(n, relPkg+"."), ".") {
					fmt.Fprintf(&b, "\tsimrt.RegisterRaceVar(%d, %q)\n", i+1, n)
				}
			}
			b.WriteString("}\n")
			dir := filepath.Dir(pkg.GoFiles[0])
			if err := os.WriteFile(filepath.Join(dir, "zz_simrt_globals.go"), []byte(b.String()), 0o644); err != nil {
				die(err)
			}
		}
	}
	out.YieldSites = yieldID
	out.MapSites = mapID
	out.RaceVars = len(raceNames)
	exempt := map[string]bool{}
	for _, a := range out.Audit {
		switch a.Kind {
		case "go", "select", "chan-send", "chan-recv", "chan-range", "sync":
			exempt[filepath.Dir(strings.SplitN(a.Pos, ":", 2)[0])] = true
		case "pkg":
			if strings.HasPrefix(a.Text, "sync/atomic.") {
				exempt[filepath.Dir(strings.SplitN(a.Pos, ":", 2)[0])] = true
			}
		}
	}
	for d := range exempt {
		if d == "." {
			d = "github.com/gogpu/naga"
		}
		out.RaceExemptPkgs = append(out.RaceExemptPkgs, d)
	}
	sort.Strings(out.RaceExemptPkgs)
	js, _ := json.MarshalIndent(out, "", " ")
	if err := os.WriteFile(*outPath, js, 0o644); err != nil {
		die(err)
	}
	// full yield-site table, tab separated (large)
	var tsv strings.Builder
	for _, s := range out.Yields {
		fmt.Fprintf(&tsv, "%d\t%s\t%s\t%s\n", s.ID, s.Kind, s.Pos, s.Func)
	}
	if err := os.WriteFile(strings.TrimSuffix(*outPath, ".json")+".yields.tsv", []byte(tsv.String()), 0o644); err != nil {
		die(err)
	}
	fmt.Fprintf(os.Stderr, "instrument: %d packages, %d yield sites, %d map sites, %d globals, %d sync seams, %d audit items\n",
		len(out.Packages), yieldID, mapID, out.Globals, out.SyncSeams, len(out.Audit))
}

// writeYields puts a scheduling point in front of every statement of a block
// that writes through a selector, an index or a pointer (i.e. possibly into
// memory shared with another goroutine), so that "write, ..., write back"
// windows are pre-emptible even when they contain no call and no loop.
func writeYields(list []ast.Stmt, tf *token.File, patches *[]patch, yieldID *int, out *output,
	posOf func(token.Pos) string, curFunc func() string, usesSimrt *bool) {
	nonLocal := func(e ast.Expr) bool {
		for {
			switch x := e.(type) {
			case *ast.ParenExpr:
				e = x.X
				continue
			case *ast.SelectorExpr, *ast.IndexExpr, *ast.StarExpr, *ast.IndexListExpr:
				return true
			}
			return false
		}
	}
	for _, st := range list {
		hit := false
		switch x := st.(type) {
		case *ast.AssignStmt:
			for _, l := range x.Lhs {
				if nonLocal(l) {
					hit = true
				}
			}
		case *ast.IncDecStmt:
			hit = nonLocal(x.X)
		}
		if !hit {
			continue
		}
		*yieldID++
		// the top bit marks "about to write non-local memory" for the scheduler
		*patches = append(*patches, patch{off: tf.Offset(st.Pos()), text: fmt.Sprintf("simrt.Yield(%d|simrt.WriteSite);", *yieldID)})
		out.Yields = append(out.Yields, site{ID: *yieldID, Kind: "write", Pos: posOf(st.Pos()), Func: curFunc()})
		out.WriteYields++
		*usesSimrt = true
	}
}

// envSeams: functions of the process environment that are redirected to the
// simulator's versions.
var envSeams = map[string]string{
	"time.Now": "TimeNow", "time.Since": "TimeSince",
	"os.Getenv": "Getenv", "os.LookupEnv": "LookupEnv", "os.Getpid": "Getpid", "os.Getwd": "Getwd",
	"os.Hostname": "Hostname", "os.Executable": "Executable",
	"math/rand.Int": "RandInt", "math/rand.Intn": "RandIntn", "math/rand.Int63": "RandInt63", "math/rand.Int31n": "RandInt31n",
	"math/rand.Uint32": "RandUint32", "math/rand.Uint64": "RandUint64", "math/rand.Float64": "RandFloat64",
	"math/rand/v2.Int": "RandInt", "math/rand/v2.IntN": "RandIntN", "math/rand/v2.Uint32": "RandUint32",
	"math/rand/v2.Uint64": "RandUint64", "math/rand/v2.Float64": "RandFloat64",
}

// envKeep: a type of each package, to keep the import referenced when every
// use in a file was redirected.
var envKeep = map[string]string{"time": "Duration", "os": "FileMode", "math/rand": "Source", "math/rand/v2": "Source"}

// syncType: the variable is itself a synchronisation object (or an atomic).
func syncType(t types.Type) bool {
	for {
		if p, ok := t.(*types.Pointer); ok {
			t = p.Elem()
			continue
		}
		break
	}
	if n, ok := t.(*types.Named); ok && n.Obj().Pkg() != nil {
		switch n.Obj().Pkg().Path() {
		case "sync", "sync/atomic":
			return true
		}
	}
	return false
}

// touches puts simrt.Touch(id, write) in front of every statement of a block
// that mentions a package-level variable in its own expressions (nested
// statement bodies and function literals are handled where they are listed).
func touches(list []ast.Stmt, tf *token.File, patches *[]patch, info *types.Info, ids map[types.Object]int, out *output, usesSimrt *bool) {
	for _, st := range list {
		inner := st
		for {
			if l, ok := inner.(*ast.LabeledStmt); ok {
				inner = l.Stmt
				continue
			}
			break
		}
		reads, writes := map[int]bool{}, map[int]bool{}
		root := func(e ast.Expr) *ast.Ident {
			for {
				switch x := e.(type) {
				case *ast.ParenExpr:
					e = x.X
				case *ast.SelectorExpr:
					// pkg.Var or var.field
					if id, ok := x.X.(*ast.Ident); ok {
						if _, isPkg := info.Uses[id].(*types.PkgName); isPkg {
							return x.Sel
						}
					}
					e = x.X
				case *ast.IndexExpr:
					e = x.X
				case *ast.IndexListExpr:
					e = x.X
				case *ast.StarExpr:
					e = x.X
				case *ast.SliceExpr:
					e = x.X
				case *ast.Ident:
					return x
				default:
					return nil
				}
			}
		}
		markWrite := func(e ast.Expr) {
			if id := root(e); id != nil {
				if n, ok := ids[info.Uses[id]]; ok {
					writes[n] = true
				}
			}
		}
		var scan func(n ast.Node)
		scan = func(n ast.Node) {
			if n == nil {
				return
			}
			ast.Inspect(n, func(m ast.Node) bool {
				switch x := m.(type) {
				case *ast.BlockStmt, *ast.FuncLit:
					return false
				case *ast.CallExpr:
					if id, ok := x.Fun.(*ast.Ident); ok && len(x.Args) > 0 {
						if _, isBuiltin := info.Uses[id].(*types.Builtin); isBuiltin {
							switch id.Name {
							case "delete", "clear", "copy":
								markWrite(x.Args[0])
							}
						}
					}
					// v.Lock(), v.mu.Unlock(), once.Do(f), pool.Get(): using a
					// synchronisation object (possibly embedded in v) is not a
					// data access to v. Scan the arguments only.
					if sel, ok := x.Fun.(*ast.SelectorExpr); ok {
						if s, ok := info.Selections[sel]; ok {
							if fn, ok := s.Obj().(*types.Func); ok && fn.Pkg() != nil && (fn.Pkg().Path() == "sync" || fn.Pkg().Path() == "sync/atomic") {
								for _, a := range x.Args {
									scan(a)
								}
								return false
							}
						}
					}
				case *ast.Ident:
					if n, ok := ids[info.Uses[x]]; ok {
						reads[n] = true
					}
				}
				return true
			})
		}
		switch x := inner.(type) {
		case *ast.AssignStmt:
			for _, l := range x.Lhs {
				markWrite(l)
			}
			scan(x)
		case *ast.IncDecStmt:
			markWrite(x.X)
			scan(x)
		case *ast.ExprStmt, *ast.ReturnStmt, *ast.SendStmt, *ast.DeclStmt, *ast.DeferStmt, *ast.GoStmt:
			scan(x)
		case *ast.IfStmt:
			scan(x.Init)
			scan(x.Cond)
		case *ast.ForStmt:
			scan(x.Init)
			scan(x.Cond)
			scan(x.Post)
		case *ast.RangeStmt:
			scan(x.X)
		case *ast.SwitchStmt:
			scan(x.Init)
			scan(x.Tag)
		case *ast.TypeSwitchStmt:
			scan(x.Init)
			scan(x.Assign)
		}
		if len(reads) == 0 && len(writes) == 0 {
			continue
		}
		var keys []int
		for k := range reads {
			keys = append(keys, k)
		}
		for k := range writes {
			if !reads[k] {
				keys = append(keys, k)
			}
		}
		sort.Ints(keys)
		var b strings.Builder
		for _, k := range keys {
			fmt.Fprintf(&b, "simrt.Touch(%d,%v);", k, writes[k])
			out.TouchSites++
		}
		*patches = append(*patches, patch{off: tf.Offset(st.Pos()), text: b.String()})
		*usesSimrt = true
	}
}

func coreType(t types.Type) types.Type {
	if t == nil {
		return nil
	}
	if tp, ok := t.(*types.TypeParam); ok {
		// core type of a type parameter: use the single underlying type if any
		if iface, ok := tp.Constraint().Underlying().(*types.Interface); ok && iface.NumEmbeddeds() == 1 {
			if u, ok := iface.EmbeddedType(0).(*types.Union); ok && u.Len() == 1 {
				return u.Term(0).Type().Underlying()
			}
			return iface.EmbeddedType(0).Underlying()
		}
		return t.Underlying()
	}
	return t.Underlying()
}

func recvName(e ast.Expr) string {
	switch x := e.(type) {
	case *ast.StarExpr:
		return recvName(x.X)
	case *ast.Ident:
		return x.Name
	case *ast.IndexExpr:
		return recvName(x.X)
	case *ast.IndexListExpr:
		return recvName(x.X)
	}
	return "?"
}

func die(err error) {
	fmt.Fprintln(os.Stderr, "instrument:", err)
	os.Exit(2)
}
