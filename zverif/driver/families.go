package main

import (
	"fmt"

	"github.com/gogpu/naga/zverif/proto"
)

// Scenario families.  Legality of concurrency is taken from the property text
// and not widened (DESIGN.md §3.3):
//   - two operations of the same backend kind are never in flight together on
//     one module;
//   - a spirv.Backend instance is used by one task at a time and changes hands
//     only across a happens-before edge;
//   - callers never mutate a shared module themselves (compact/inline only on
//     a module that is private to the task);
//   - for C14, several tasks may resolve the same original concurrently with
//     different value maps (each resolution is specified to work on a copy).

type family struct {
	name   string
	weight int
	gen    func(b *builder, c *corpus, nSites int)
}

func shuffled[T any](r *rng, xs []T) []T {
	out := append([]T(nil), xs...)
	for i := len(out) - 1; i > 0; i-- {
		j := r.intn(i + 1)
		out[i], out[j] = out[j], out[i]
	}
	return out
}

// F1: one caller, one module, a history of backends in arbitrary order
// ("which other backends ran before on the same module").
func genSeqMulti(b *builder, c *corpus, nSites int) {
	t := b.task()
	p := pick(b.r, c.lowerable)
	m, _ := b.lower(t, p)
	n := 3 + b.r.intn(5)
	kinds := append(shuffled(b.r, backendKinds), shuffled(b.r, backendKinds)...)
	if b.r.chance(0.4) {
		// DXIL first: the historically interesting order
		kinds = append([]string{proto.OpDXIL}, kinds...)
	}
	for i := 0; i < n && i < len(kinds); i++ {
		if b.r.chance(0.25) {
			b.add(t, proto.Op{Kind: proto.OpValidate, Mod: m})
		}
		b.add(t, b.backendOp(kinds[i], m))
	}
	b.drawFaults(nSites, false)
}

// F2: history on a reused spirv.Backend, including failing compilations in
// the middle and a hand-over between tasks.
func genReuse(b *builder, c *corpus, nSites int) {
	t0 := b.task()
	be := b.newBackend()
	nsrc := 2 + b.r.intn(2)
	var mods []int
	for i := 0; i < nsrc; i++ {
		p := pick(b.r, c.lowerable)
		if b.r.chance(0.25) && len(c.withOv) > 0 {
			p = pick(b.r, c.withOv) // unresolved overrides: a natural failop for SPIR-V
		}
		m, _ := b.lower(t0, p)
		mods = append(mods, m)
	}
	n := 2 + b.r.intn(5)
	handoff := b.r.chance(0.3)
	var last proto.Ref
	for i := 0; i < n; i++ {
		last = b.add(t0, proto.Op{Kind: proto.OpSpirvB, Mod: pick(b.r, mods), Backend: be})
	}
	if handoff {
		t1 := b.task()
		for i := 0; i < 1+b.r.intn(3); i++ {
			op := proto.Op{Kind: proto.OpSpirvB, Mod: pick(b.r, mods), Backend: be}
			if i == 0 {
				op.After = []proto.Ref{last}
			}
			b.add(t1, op)
		}
	}
	if b.r.chance(0.3) {
		// a second, independent backend instance used by another caller on
		// the same modules at the same time (different instance: legal only
		// if they are of a different backend *kind* per module -> use it on
		// its own module)
		t2 := b.task()
		be2 := b.newBackend()
		p := pick(b.r, c.lowerable)
		m, _ := b.lower(t2, p)
		for i := 0; i < 1+b.r.intn(3); i++ {
			b.add(t2, proto.Op{Kind: proto.OpSpirvB, Mod: m, Backend: be2})
		}
	}
	b.drawFaults(nSites, true)
}

// F3: one shared module, several callers, each with its own backend kinds.
func genConcShared(b *builder, c *corpus, nSites int) {
	t0 := b.task()
	p := pick(b.r, c.lowerable)
	m, lref := b.lower(t0, p)
	kinds := shuffled(b.r, backendKinds)
	nt := 2 + b.r.intn(3)
	// partition the backend kinds among the callers: a kind belongs to one
	// caller only, so same-kind operations on the module never overlap
	owner := make([][]string, nt)
	for i, k := range kinds {
		owner[i%nt] = append(owner[i%nt], k)
	}
	for i := 0; i < nt; i++ {
		t := t0
		if i > 0 {
			t = b.task()
		}
		nops := 1 + b.r.intn(3)
		for j := 0; j < nops; j++ {
			op := b.backendOp(pick(b.r, owner[i]), m)
			if j == 0 && t != t0 {
				op.After = []proto.Ref{lref}
			}
			b.add(t, op)
		}
	}
	if b.r.chance(0.3) {
		// a reusable SPIR-V backend is a "spirv"-kind user: give it to the
		// caller that owns the spirv kind, replacing its one-shot calls
		for ti := range b.sc.Tasks {
			for oi := range b.sc.Tasks[ti] {
				if b.sc.Tasks[ti][oi].Kind == proto.OpSpirv {
					if len(b.sc.Backends) == 0 {
						b.newBackend()
					}
					b.sc.Tasks[ti][oi].Kind = proto.OpSpirvB
					b.sc.Tasks[ti][oi].Spirv = nil
					b.sc.Tasks[ti][oi].Backend = 0
				}
			}
		}
	}
	b.drawFaults(nSites, true)
}

// F4: separate modules, fully concurrent callers (including lowering itself
// and the one-shot convenience API).
func genConcSeparate(b *builder, c *corpus, nSites int) {
	nt := 2 + b.r.intn(3)
	for i := 0; i < nt; i++ {
		t := b.task()
		if b.r.chance(0.35) {
			p := pick(b.r, c.progs)
			o := oneshotPreset(b.r)
			b.add(t, proto.Op{Kind: proto.OpOneshot, Src: b.source(p), Oneshot: &o})
			if b.r.chance(0.5) {
				continue
			}
		}
		p := pick(b.r, c.lowerable)
		m, _ := b.lower(t, p)
		for j := 0; j < 1+b.r.intn(3); j++ {
			b.add(t, b.backendOp(pick(b.r, backendKinds), m))
		}
	}
	b.drawFaults(nSites, true)
}

// F4b: separate modules, every caller using the SAME back end kind at the same
// time (shared state inside one back end: scratch buffers, memo tables, pools).
func genConcSameKind(b *builder, c *corpus, nSites int) {
	kind := pick(b.r, backendKinds)
	nt := 2 + b.r.intn(3)
	for i := 0; i < nt; i++ {
		t := b.task()
		p := pick(b.r, c.lowerable)
		m, _ := b.lower(t, p)
		for j := 0; j < 1+b.r.intn(3); j++ {
			b.add(t, b.backendOp(kind, m))
		}
	}
	b.drawFaults(nSites, true)
	if b.sc.Sched.MeanQuantum == 0 {
		b.sc.Sched.MeanQuantum = 500
	}
}

// F4c: ONE caller, several modules, the same back end kind again and again:
// what a back end keeps from one compilation to the next inside a process
// (memo tables keyed too coarsely, recycled writers/namers) - the analogue of
// the reused spirv.Backend for the back ends that have no instance.
func genSeqSameKind(b *builder, c *corpus, nSites int) {
	kind := pick(b.r, backendKinds)
	t := b.task()
	var mods []int
	for i := 0; i < 2+b.r.intn(3); i++ {
		m, _ := b.lower(t, pick(b.r, c.lowerable))
		mods = append(mods, m)
	}
	for i := 0; i < 3+b.r.intn(5); i++ {
		b.add(t, b.backendOp(kind, pick(b.r, mods)))
	}
	b.drawFaults(nSites, false)
}

// F5: one operation under a map-order fault (all sites / one site).
func genMapOrder(b *builder, c *corpus, nSites int) {
	t := b.task()
	p := pick(b.r, c.lowerable)
	m, _ := b.lower(t, p)
	for i := 0; i < 1+b.r.intn(2); i++ {
		b.add(t, b.backendOp(pick(b.r, backendKinds), m))
	}
	b.drawFaults(nSites, false)
	if b.sc.Perm.Mode == "canonical" || b.sc.Perm.Mode == "" {
		b.sc.Perm.Mode = pick(b.r, []string{"reverse", "random", "rotate"})
		b.sc.Perm.All = true
		b.sc.Perm.Seed = b.r.next()
		b.sc.Perm.K = 1 + b.r.intn(4)
	}
}

// F6: passes on a caller-private module, then backends.
func genPrivate(b *builder, c *corpus, nSites int) {
	t := b.task()
	p := pick(b.r, c.lowerable)
	m, _ := b.lower(t, p)
	if b.r.chance(0.5) {
		b.add(t, b.backendOp(pick(b.r, backendKinds), m))
	}
	work := m
	if b.r.chance(0.5) {
		// the passes run on an ir.CloneModule copy; the original stays in use
		work = b.nextObj
		b.nextObj++
		b.progOf[work] = p
		b.add(t, proto.Op{Kind: proto.OpClone, Mod: m, Dst: work})
	}
	passOp := func() proto.Op {
		if b.r.chance(0.3) {
			return proto.Op{Kind: proto.OpInline, Mod: work}
		}
		// a drawn pipeline of the exported IR passes
		all := []string{"unused", "types", "reorder", "constants", "expressions", "dedup"}
		ps := []string{"unused"}
		for _, x := range shuffled(b.r, all[1:]) {
			if b.r.chance(0.4) {
				ps = append(ps, x)
			}
		}
		return proto.Op{Kind: proto.OpCompact, Mod: work, Passes: ps}
	}
	b.add(t, passOp())
	if b.r.chance(0.4) {
		b.add(t, passOp())
	}
	for i := 0; i < 1+b.r.intn(3); i++ {
		b.add(t, b.backendOp(pick(b.r, backendKinds), pick(b.r, []int{m, work})))
	}
	if b.r.chance(0.5) {
		// somebody else works on their own module meanwhile
		t2 := b.task()
		p2 := pick(b.r, c.lowerable)
		m2, _ := b.lower(t2, p2)
		b.add(t2, b.backendOp(pick(b.r, backendKinds), m2))
	}
	b.drawFaults(nSites, true)
}

// F7: callers own their results: scribble on a returned value, then call again.
func genScribble(b *builder, c *corpus, nSites int) {
	t := b.task()
	p := pick(b.r, c.lowerable)
	m, _ := b.lower(t, p)
	useB := b.r.chance(0.5)
	be := 0
	if useB {
		be = b.newBackend()
	}
	for i := 0; i < 2+b.r.intn(3); i++ {
		var ref proto.Ref
		if useB && b.r.chance(0.6) {
			ref = b.add(t, proto.Op{Kind: proto.OpSpirvB, Mod: m, Backend: be})
		} else {
			ref = b.add(t, b.backendOp(pick(b.r, backendKinds), m))
		}
		if b.r.chance(0.6) {
			r := ref
			b.add(t, proto.Op{Kind: proto.OpScribble, Target: &r})
		}
	}
	b.drawFaults(nSites, false)
}

// G1 (C14): several callers resolve the same original with different value
// maps while others compile the original; resolved copies are then compiled.
func genResolve(b *builder, c *corpus, nSites int) {
	if len(c.withOv) == 0 {
		genSeqMulti(b, c, nSites)
		return
	}
	t0 := b.task()
	p := pick(b.r, c.withOv)
	m, lref := b.lower(t0, p)
	nt := 1 + b.r.intn(3)
	for i := 0; i < nt; i++ {
		t := t0
		if i > 0 {
			t = b.task()
		}
		for j := 0; j < 1+b.r.intn(2); j++ {
			cs, _ := constsFor(b.r, p)
			var after []proto.Ref
			if t != t0 && j == 0 {
				after = []proto.Ref{lref}
			}
			rm, _ := b.resolve(t, m, cs, after...)
			if b.r.chance(0.3) {
				// the caller tidies up its resolved copy before compiling it
				b.add(t, proto.Op{Kind: pick(b.r, []string{proto.OpCompact, proto.OpCompact, proto.OpInline}), Mod: rm})
			}
			for k := 0; k < b.r.intn(3); k++ {
				b.add(t, b.backendOp(pick(b.r, backendKinds), rm))
			}
		}
	}
	// a reader of the original, concurrently: MSL accepts unresolved
	// overrides, the others fail deterministically (natural failop)
	if b.r.chance(0.7) {
		t := b.task()
		for j := 0; j < 1+b.r.intn(2); j++ {
			// kinds disjoint from the ones t0 uses on the original below, so
			// that two operations of one backend kind never overlap on it
			op := b.backendOp(pick(b.r, []string{proto.OpMSL, proto.OpGLSL, proto.OpDXIL}), m)
			if j == 0 {
				op.After = []proto.Ref{lref}
			}
			b.add(t, op)
		}
	}
	// finally the original is compiled once more after everything
	if b.r.chance(0.6) {
		b.add(t0, b.backendOp(pick(b.r, []string{proto.OpHLSL, proto.OpSpirv}), m))
	}
	b.drawFaults(nSites, true)
}

// G2 (C14): the pipeline-constant option of GLSL / MSL on the original,
// followed by other uses of the original.
func genConstOpt(b *builder, c *corpus, nSites int) {
	if len(c.withOv) == 0 {
		genSeqMulti(b, c, nSites)
		return
	}
	t := b.task()
	p := pick(b.r, c.withOv)
	m, lref := b.lower(t, p)
	n := 1 + b.r.intn(3)
	var prev []proto.Const
	for i := 0; i < n; i++ {
		cs, _ := constsFor(b.r, p)
		if len(prev) > 1 && b.r.chance(0.4) {
			// the same keys as the previous call, values rotated: a second
			// resolution that differs from the first only in which key gets
			// which value
			cs = append([]proto.Const(nil), prev...)
			first := cs[0].Value
			for j := 0; j+1 < len(cs); j++ {
				cs[j].Value = cs[j+1].Value
			}
			cs[len(cs)-1].Value = first
		}
		prev = cs
		var ref proto.Ref
		if b.r.chance(0.5) {
			op := b.backendOp(proto.OpGLSL, m)
			op.GLSL.HasConsts, op.GLSL.Consts = true, cs
			ref = b.add(t, op)
		} else {
			op := b.backendOp(proto.OpMSL, m)
			op.MSL.HasConsts, op.MSL.Consts = true, cs
			ref = b.add(t, op)
		}
		if missingRequired(p, cs) {
			b.expectErr[ref] = true
		}
		if b.r.chance(0.5) {
			b.add(t, b.backendOp(pick(b.r, backendKinds), m))
		}
	}
	if b.r.chance(0.5) {
		// concurrently, another caller resolves the same original explicitly
		t2 := b.task()
		cs, _ := constsFor(b.r, p)
		rm, _ := b.resolve(t2, m, cs, lref)
		b.add(t2, b.backendOp(pick(b.r, []string{proto.OpSpirv, proto.OpHLSL, proto.OpDXIL}), rm))
	}
	if n == 1 && len(b.sc.Tasks[t]) == 2 && b.r.chance(0.8) {
		// two resolutions through back-end options at the same time: the other
		// back-end kind, its own value map, the same original (task t runs
		// nothing else on it, so no two operations of one kind overlap)
		first := b.sc.Tasks[t][len(b.sc.Tasks[t])-1]
		for i := len(b.sc.Tasks[t]) - 1; i >= 0; i-- {
			if hasConsts(&b.sc.Tasks[t][i]) {
				first = b.sc.Tasks[t][i]
			}
		}
		t3 := b.task()
		cs, _ := constsFor(b.r, p)
		var ref proto.Ref
		if first.Kind == proto.OpGLSL {
			op := b.backendOp(proto.OpMSL, m, lref)
			op.MSL.HasConsts, op.MSL.Consts = true, cs
			ref = b.add(t3, op)
		} else {
			op := b.backendOp(proto.OpGLSL, m, lref)
			op.GLSL.HasConsts, op.GLSL.Consts = true, cs
			ref = b.add(t3, op)
		}
		if missingRequired(p, cs) {
			b.expectErr[ref] = true
		}
	}
	b.drawFaults(nSites, true)
}

// T3 (thorough): a long history of 50-200 compilations on one reused backend.
func genLongHistory(b *builder, c *corpus, nSites int) {
	t := b.task()
	be := b.newBackend()
	var mods []int
	for i := 0; i < 4+b.r.intn(5); i++ {
		m, _ := b.lower(t, pick(b.r, c.lowerable))
		mods = append(mods, m)
	}
	for i := 0; i < 50+b.r.intn(151); i++ {
		b.add(t, proto.Op{Kind: proto.OpSpirvB, Mod: pick(b.r, mods), Backend: be})
	}
	b.drawFaults(nSites, false)
	b.sc.Monitor = 0
}

var familiesC12Thorough = []family{
	{"seq-multi", 22, genSeqMulti},
	{"reuse", 18, genReuse},
	{"conc-shared", 22, genConcShared},
	{"conc-separate", 12, genConcSeparate},
	{"conc-same-kind", 10, genConcSameKind},
	{"seq-same-kind", 8, genSeqSameKind},
	{"maporder", 14, genMapOrder},
	{"private", 6, genPrivate},
	{"scribble", 6, genScribble},
	{"long-history", 1, genLongHistory},
}

var familiesC12 = []family{
	{"seq-multi", 22, genSeqMulti},
	{"reuse", 18, genReuse},
	{"conc-shared", 22, genConcShared},
	{"conc-separate", 12, genConcSeparate},
	{"conc-same-kind", 10, genConcSameKind},
	{"seq-same-kind", 8, genSeqSameKind},
	{"maporder", 14, genMapOrder},
	{"private", 6, genPrivate},
	{"scribble", 6, genScribble},
}

// G3 (C14): the caller resolves its OWN copy in place; a failed attempt (value
// map missing a required override) is followed by a retry with a complete map.
func genInPlace(b *builder, c *corpus, nSites int) {
	if len(c.withOv) == 0 {
		genSeqMulti(b, c, nSites)
		return
	}
	t := b.task()
	p := pick(b.r, c.withOv)
	m, _ := b.lower(t, p)
	full := func() []proto.Const {
		var cs []proto.Const
		vals := []string{"1", "2", "3", "0.5", "7"}
		for _, ov := range p.info.Overrides {
			key := ov.Name
			if ov.ID >= 0 && b.r.chance(0.5) {
				key = fmt.Sprint(ov.ID)
			}
			if key != "" {
				cs = append(cs, proto.Const{Key: key, Value: pick(b.r, vals)})
			}
		}
		return cs
	}
	if b.r.chance(0.7) {
		// failing attempts first: drop the value of one override without default
		cs := full()
		for i, ov := range p.info.Overrides {
			if !ov.HasDefault && i < len(cs) {
				cs = append(cs[:i:i], cs[i+1:]...)
				break
			}
		}
		if b.r.chance(0.6) {
			// ... and rely on defaults (derived ones included) for some of the
			// others: the attempt evaluates default initialisers before it fails
			cs = dropDefaulted(b.r, p, cs)
		}
		for k := 0; k < 1+b.r.intn(2); k++ {
			ref := b.add(t, proto.Op{Kind: proto.OpResolveInPlace, Mod: m, Consts: cs})
			if missingRequired(p, cs) {
				b.expectErr[ref] = true
			}
		}
	}
	retry := full()
	if b.r.chance(0.5) {
		retry = dropDefaulted(b.r, p, retry)
	}
	b.add(t, proto.Op{Kind: proto.OpResolveInPlace, Mod: m, Consts: retry})
	for i := 0; i < 1+b.r.intn(3); i++ {
		b.add(t, b.backendOp(pick(b.r, backendKinds), m))
	}
	b.drawFaults(nSites, false)
}

// dropDefaulted removes, each with probability 1/2, the values of overrides
// that have a default initialiser (addressed by name or by id).
func dropDefaulted(r *rng, p *program, cs []proto.Const) []proto.Const {
	defaulted := map[string]bool{}
	for _, ov := range p.info.Overrides {
		if ov.HasDefault {
			defaulted[ov.Name] = true
			if ov.ID >= 0 {
				defaulted[fmt.Sprint(ov.ID)] = true
			}
		}
	}
	out := make([]proto.Const, 0, len(cs))
	for _, c := range cs {
		if defaulted[c.Key] && r.chance(0.5) {
			continue
		}
		out = append(out, c)
	}
	return out
}

var familiesC14 = []family{
	{"resolve", 52, genResolve},
	{"constopt", 36, genConstOpt},
	{"inplace", 12, genInPlace},
}

func pickFamily(r *rng, fams []family) family {
	total := 0
	for _, f := range fams {
		total += f.weight
	}
	n := r.intn(total)
	for _, f := range fams {
		if n < f.weight {
			return f
		}
		n -= f.weight
	}
	return fams[0]
}

// ---------------------------------------------------------------------------
// Reference chains, derived purely from the scenario's structure (so that a
// replay file needs nothing but the scenario).
// ---------------------------------------------------------------------------

func isCreator(k string) bool {
	return k == proto.OpLower || k == proto.OpResolve || k == proto.OpClone
}
func isMutator(k string) bool {
	return k == proto.OpCompact || k == proto.OpInline || k == proto.OpResolveInPlace
}

// chainFor lists, in order, the operations a pristine process must run to
// reproduce operation (t,o) alone: creators of its input object (recursively)
// and the in-place passes its own task applied to that object earlier.
func chainFor(sc *proto.Scenario, ref proto.Ref) []proto.Ref {
	op := sc.Tasks[ref.Task][ref.Op]
	if op.Kind == proto.OpScribble {
		return nil
	}
	var chain []proto.Ref
	if op.Kind != proto.OpLower && op.Kind != proto.OpOneshot {
		chain = objChain(sc, op.Mod, ref, 0)
	}
	return append(chain, ref)
}

func objChain(sc *proto.Scenario, obj int, before proto.Ref, depth int) []proto.Ref {
	if depth > 16 {
		return nil
	}
	var creator *proto.Ref
	for ti := range sc.Tasks {
		for oi := range sc.Tasks[ti] {
			o := &sc.Tasks[ti][oi]
			if isCreator(o.Kind) && o.Dst == obj {
				creator = &proto.Ref{Task: ti, Op: oi}
			}
		}
	}
	if creator == nil {
		return nil
	}
	var chain []proto.Ref
	cop := sc.Tasks[creator.Task][creator.Op]
	if cop.Kind == proto.OpResolve || cop.Kind == proto.OpClone {
		chain = objChain(sc, cop.Mod, *creator, depth+1)
	}
	chain = append(chain, *creator)
	for oi := range sc.Tasks[before.Task] {
		if oi >= before.Op {
			break
		}
		o := &sc.Tasks[before.Task][oi]
		if isMutator(o.Kind) && o.Mod == obj {
			chain = append(chain, proto.Ref{Task: before.Task, Op: oi})
		}
	}
	return chain
}
