// Command driver generates scenarios from one seed, executes each in a fresh
// worker process, judges the recorded histories against pristine-process
// references, minimises and replays violations and writes the evidence file.
//
//	driver check  -prop C12|C14 -tier quick|thorough -worker BIN -sites FILE -corpus DIR -verif DIR
//	driver replay -file REPLAY -worker BIN -sites FILE -verif DIR
//
// Exit status: 0 property held on everything explored (known findings are
// printed as KNOWN-FINDING lines); 1 violation (a line
// "VIOLATION property=<id> replay=<path>" is printed); 2 tooling trouble.
package main

import (
	"bytes"
	"encoding/json"
	"flag"
	"fmt"
	"os"
	"os/exec"
	"path/filepath"
	"runtime"
	"sort"
	"strconv"
	"strings"
	"sync"
	"sync/atomic"
	"time"

	"github.com/gogpu/naga/zverif/proto"
	"github.com/gogpu/naga/zverif/simrt"
)

func runCmd(bin string, stdin []byte, args ...string) ([]byte, error) {
	cmd := exec.Command(bin, args...)
	cmd.Stdin = bytes.NewReader(stdin)
	var so, se bytes.Buffer
	cmd.Stdout, cmd.Stderr = &so, &se
	if err := cmd.Run(); err != nil {
		return nil, fmt.Errorf("%v: %s", err, firstLines(se.String(), 6))
	}
	return so.Bytes(), nil
}

type siteFile struct {
	YieldSites int `json:"yield_sites"`
	MapSites   int `json:"map_sites"`
	Globals    int `json:"globals"`
	SyncSeams  int `json:"sync_seams"`
	Audit      []struct {
		Kind, Pos, Text string
	} `json:"audit"`
	Maps []struct {
		ID   int    `json:"id"`
		Pos  string `json:"pos"`
		Func string `json:"func"`
	} `json:"maps"`
	Packages       []string `json:"packages"`
	SyncPkgs       []string `json:"sync_pkgs"`
	RaceExemptPkgs []string `json:"race_exempt_pkgs"`
	Coarse         bool     `json:"coarse"`
	CoarseReasons  []string `json:"coarse_reasons"`
	RaceVars       int      `json:"race_tracked_variables"`
	TouchSites     int      `json:"access_sites"`
	WriteYields    int      `json:"write_yield_sites"`
}

type driver struct {
	prop     string
	tier     string
	seed     uint64
	x        *executor
	sites    siteFile
	corpus   *corpus
	meta     ovMeta
	known    *knownFile
	verifDir string
	fams     []family
	// thorough-tier enumerated strata (C12)
	pairProgs []*program // T1: every ordered pair of these on one reused spirv.Backend
	siteJobs  []siteJob  // T2: (program, operation, map site) triples, one site reversed at a time
}

type siteJob struct {
	p    *program
	kind string
	site uint32
}

// record is what one scenario contributed.
type record struct {
	idx         int
	sc          *proto.Scenario
	res         *proto.Result
	refs        [][]*proto.OpResult
	findings    []finding
	crashed     string
	err         error
	twinOK      bool
	twinRun     bool
	prelude     [][]byte      // what the serving process had executed before this scenario
	partial     *proto.Result // what a process that died had streamed before dying
	twinBad     string
	twinLogDiff bool
}

func (d *driver) refsFor(ss *session, sc *proto.Scenario) ([][]*proto.OpResult, error) {
	refs := make([][]*proto.OpResult, len(sc.Tasks))
	for ti := range sc.Tasks {
		refs[ti] = make([]*proto.OpResult, len(sc.Tasks[ti]))
		for oi := range sc.Tasks[ti] {
			chain := chainFor(sc, proto.Ref{Task: ti, Op: oi})
			if chain == nil {
				continue
			}
			r, _, err := d.x.reference(ss, sc, chain)
			if err != nil {
				return nil, err
			}
			refs[ti][oi] = r
			if r != nil && r.Done && !r.StepLimit {
				// generous multiples of the operation's own pristine cost, yet
				// small enough that a runaway recursion is cut long before the
				// goroutine stack limit
				lim := 5 * r.Steps
				if lim < r.Steps+400_000 {
					lim = r.Steps + 400_000
				}
				sc.Tasks[ti][oi].StepLimit = lim
			}
		}
	}
	return refs, nil
}

// coarsen adapts a scenario to a tree whose operations cannot be interleaved
// cooperatively (library code starts goroutines): every operation is one
// atomic step, no scheduling faults, deterministic map orders only.
func (d *driver) coarsen(sc *proto.Scenario) *proto.Scenario {
	if !d.sites.Coarse {
		return sc
	}
	sc.Sched.MeanQuantum, sc.Sched.SyncPreempt, sc.Sched.WritePreempt, sc.Sched.StarveTask = 0, 0, 0, 0
	sc.Sched.Dist = ""
	if sc.Perm.Mode == simrt.PermRandom {
		sc.Perm.Mode = simrt.PermReverse
	}
	sc.Monitor = 0
	return sc
}

func (d *driver) generate(i int) *proto.Scenario {
	return d.coarsen(d.generate1(i))
}

func (d *driver) generate1(i int) *proto.Scenario {
	seed := simrt.Mix(d.seed, uint64(i))
	if np := len(d.pairProgs) * len(d.pairProgs); i < np {
		// T1, exhaustive: program A then program B on one reused default backend
		a, bb := d.pairProgs[i/len(d.pairProgs)], d.pairProgs[i%len(d.pairProgs)]
		b := newBuilder(seed, "T1-reuse-pair")
		t := b.task()
		be := 0
		b.sc.Backends = []proto.SpirvOpts{spirvDefault()}
		ma, _ := b.lower(t, a)
		mb := ma
		if bb != a {
			mb, _ = b.lower(t, bb)
		}
		b.add(t, proto.Op{Kind: proto.OpSpirvB, Mod: ma, Backend: be})
		b.add(t, proto.Op{Kind: proto.OpSpirvB, Mod: mb, Backend: be})
		b.sc.Sched.Explicit = []proto.Slice{}
		b.sc.Monitor = 0
		b.sc.SyncPkgs = d.sites.SyncPkgs
		b.sc.RaceExemptPkgs = d.sites.RaceExemptPkgs
		return b.sc
	} else if j := i - np; j < len(d.siteJobs) {
		// T2, exhaustive over the reached sites: one map site reversed at a time
		sj := d.siteJobs[j]
		b := newBuilder(seed, "T2-single-site")
		t := b.task()
		m, _ := b.lower(t, sj.p)
		b.add(t, d.defaultOp(b, sj.kind, m))
		b.sc.Perm = simrt.PermSpec{Mode: simrt.PermReverse, Sites: []uint32{sj.site}}
		b.sc.Sched.Explicit = []proto.Slice{}
		b.sc.Monitor = 0
		b.sc.SyncPkgs = d.sites.SyncPkgs
		b.sc.RaceExemptPkgs = d.sites.RaceExemptPkgs
		return b.sc
	}
	fr := newRng(seed, 7)
	fam := pickFamily(fr, d.fams)
	b := newBuilder(seed, fam.name)
	b.syncBias = d.sites.SyncSeams > 0
	fam.gen(b, d.corpus, d.sites.MapSites)
	b.sc.SyncPkgs = d.sites.SyncPkgs
	b.sc.RaceExemptPkgs = d.sites.RaceExemptPkgs
	return b.sc
}

// defaultOp: operation of the given kind with the back end's default options.
func (d *driver) defaultOp(b *builder, kind string, m int) proto.Op {
	op := proto.Op{Kind: kind, Mod: m}
	p := b.progOf[m]
	switch kind {
	case proto.OpSpirvB:
		if len(b.sc.Backends) == 0 {
			b.sc.Backends = []proto.SpirvOpts{spirvDefault()}
		}
	case proto.OpSpirv:
		o := spirvDefault()
		o.Debug = true
		op.Spirv = &o
	case proto.OpMSL:
		o := mslDefault()
		op.MSL = &o
	case proto.OpGLSL:
		o := proto.GLSLOpts{Version: proto.Version{Major: 4, Minor: 50}, ForceHighPrecision: true}
		if p != nil && len(p.info.EntryPoints) > 0 {
			o.EntryPoint = p.info.EntryPoints[0].Name
		}
		op.GLSL = &o
	case proto.OpHLSL:
		op.HLSL = &proto.HLSLOpts{ShaderModel: 1, FakeMissingBindings: true, ZeroInitWorkgroup: true, RestrictIndexing: true, ForceLoopBounding: true}
	case proto.OpDXIL:
		op.DXIL = &proto.DXILOpts{}
	}
	return op
}

// prepareThorough builds the enumerated strata of the thorough C12 tier.
func (d *driver) prepareThorough() error {
	for _, p := range d.corpus.lowerable {
		if !strings.HasPrefix(p.Name, "composed-") {
			d.pairProgs = append(d.pairProgs, p)
		}
	}
	if n := envInt("VERIF_PAIR_PROGRAMS", 0); n > 0 && n < len(d.pairProgs) {
		d.pairProgs = d.pairProgs[:n]
	}
	// which sites does each (program, operation) reach with >=2 entries?
	type pk struct {
		p    *program
		kind string
	}
	var jobs []pk
	for _, p := range d.corpus.lowerable {
		for _, k := range append([]string{proto.OpSpirvB}, backendKinds...) {
			jobs = append(jobs, pk{p, k})
		}
	}
	res := make([][]uint32, len(jobs))
	var wg sync.WaitGroup
	ch := make(chan int, len(jobs))
	for i := range jobs {
		ch <- i
	}
	close(ch)
	var firstErr error
	var mu sync.Mutex
	for w := 0; w < runtime.NumCPU(); w++ {
		wg.Add(1)
		go func() {
			defer wg.Done()
			ss := &session{x: d.x}
			defer ss.close()
			for i := range ch {
				b := newBuilder(1, "probe")
				t := b.task()
				m, _ := b.lower(t, jobs[i].p)
				ref := b.add(t, d.defaultOp(b, jobs[i].kind, m))
				v := d.x.referenceVisits(ss, b.sc, chainFor(b.sc, ref))
				mu.Lock()
				res[i] = v
				mu.Unlock()
			}
		}()
	}
	wg.Wait()
	if firstErr != nil {
		return firstErr
	}
	for i, v := range res {
		for s, n := range v {
			if n > 0 {
				d.siteJobs = append(d.siteJobs, siteJob{jobs[i].p, jobs[i].kind, uint32(s)})
			}
		}
	}
	return nil
}

// execute runs one scenario end to end (references, run, judge). With
// ss == nil every process involved is a fresh one.
func (d *driver) execute(ss *session, sc *proto.Scenario) (rec record) {
	return d.executeWith(ss, nil, sc)
}

// executeWith: as execute; with ss == nil and a prelude, the prelude scenarios
// are executed first in the same fresh process.
func (d *driver) executeWith(ss *session, prelude [][]byte, sc *proto.Scenario) (rec record) {
	rec.sc = sc
	refs, err := d.refsFor(ss, sc)
	if err != nil {
		rec.err = err
		return
	}
	rec.refs = refs
	var res *proto.Result
	var crashed bool
	var text string
	if ss == nil {
		res, crashed, text, err = d.x.runSessionFresh(prelude, sc)
	} else {
		res, crashed, text, err = ss.run(sc)
		if err == nil {
			rec.prelude = ss.prelude()
		}
	}
	if err != nil {
		rec.err = err
		return
	}
	if crashed {
		// The whole process died (a Go stack overflow or a runtime fatal error
		// cannot be recovered). Not a C12 matter if a pristine process dies on
		// one of the same operations too. Otherwise the judge decides from what
		// the worker had streamed before dying: completed operations are
		// compared as usual; the crash itself is a consequence if an operation
		// in flight was reading a module that somebody had altered, and an
		// O-CRASH violation if not.
		rec.crashed = text
		for ti := range sc.Tasks {
			for oi := range sc.Tasks[ti] {
				chain := chainFor(sc, proto.Ref{Task: ti, Op: oi})
				if chain == nil {
					continue
				}
				if _, c, _ := d.x.reference(ss, sc, chain); c {
					return // deterministic crash on this input
				}
			}
		}
		if res == nil {
			res = &proto.Result{Crashed: true, CrashText: text}
		}
		rec.findings = judge(sc, res, refs, d.meta)
		rec.partial = res
		return
	}
	// attribution: when invariants were evaluated less often than after every
	// slice, a change may have several suspects. The run is deterministic
	// given its recorded schedule, so it is repeated with a check after
	// every slice to name the culprit exactly.
	ambiguous := false
	for _, v := range res.Violations {
		if v.Kind == "ambiguous" {
			ambiguous = true
		}
	}
	if ambiguous {
		exact := cloneScenario(sc)
		exact.Monitor = 1
		exact.Sched.Explicit = append([]proto.Slice{}, res.Schedule...)
		var res2 *proto.Result
		var crashed2 bool
		if ss == nil {
			res2, crashed2, _, err = d.x.runSessionFresh(prelude, exact)
		} else {
			res2, crashed2, _, err = ss.run(exact)
		}
		if err != nil {
			rec.err = err
			return
		}
		if !crashed2 && res2 != nil {
			stillAmbiguous := false
			for _, v := range res2.Violations {
				if v.Kind == "ambiguous" {
					stillAmbiguous = true
				}
			}
			if !stillAmbiguous {
				res = res2
				rec.sc = exact
				sc = exact
			}
		}
	}
	rec.res = res
	rec.findings = judge(sc, res, refs, d.meta)
	return
}

func (d *driver) relevant(fs []finding) []finding {
	var out []finding
	for _, f := range fs {
		if f.has(d.prop) {
			out = append(out, f)
		}
	}
	return out
}

func envInt(name string, def int) int {
	if v := os.Getenv(name); v != "" {
		if n, err := strconv.Atoi(v); err == nil {
			return n
		}
	}
	return def
}

func main() {
	if len(os.Args) < 2 {
		fmt.Fprintln(os.Stderr, "usage: driver check|replay ...")
		os.Exit(2)
	}
	mode := os.Args[1]
	fs := flag.NewFlagSet(mode, flag.ExitOnError)
	prop := fs.String("prop", "C12", "property id")
	tier := fs.String("tier", "quick", "quick|thorough")
	worker := fs.String("worker", "", "instrumented worker binary")
	sitesPath := fs.String("sites", "", "sites.json written by the instrumenter")
	corpusDir := fs.String("corpus", "/repo/snapshot/testdata/in", "WGSL corpus directory")
	verifDir := fs.String("verif", "/verif", "verification directory (evidence, replays, known findings)")
	file := fs.String("file", "", "replay file")
	count := fs.Int("n", 0, "number of scenarios (0 = tier default)")
	native := fs.String("native", "", "worker linked against the untouched tree (selftest fidelity)")
	fs.Parse(os.Args[2:])

	d := &driver{prop: *prop, tier: *tier, verifDir: *verifDir}
	d.seed = uint64(envInt("VERIF_SEED", 1))
	d.x = &executor{worker: *worker, timeout: 300 * time.Second, refs: map[string]*refEntry{}}
	sb, err := os.ReadFile(*sitesPath)
	if err != nil {
		fail2("cannot read %s: %v", *sitesPath, err)
	}
	if err := json.Unmarshal(sb, &d.sites); err != nil {
		fail2("bad sites file: %v", err)
	}
	d.x.nSites = d.sites.MapSites
	d.known, err = loadKnown(filepath.Join(*verifDir, "known_findings.json"))
	if err != nil {
		fail2("%v", err)
	}
	switch *prop {
	case "C12":
		d.fams = familiesC12
		if *tier == "thorough" {
			d.fams = familiesC12Thorough
		}
	case "C14":
		d.fams = familiesC14
	default:
		fail2("unknown property %s", *prop)
	}

	switch mode {
	case "check":
		extra := composerPrograms(d.seed)
		d.corpus, err = loadCorpus(*corpusDir, extra, d.x)
		if err != nil {
			fail2("%v", err)
		}
		d.meta = ovMeta{}
		for _, p := range d.corpus.progs {
			d.meta[p.Name] = p.info.Overrides
		}
		if *tier == "thorough" && *prop == "C12" {
			if err := d.prepareThorough(); err != nil {
				fail2("%v", err)
			}
		}
		n := *count
		if n == 0 {
			n = envInt("VERIF_SCENARIOS", 0)
		}
		if n == 0 {
			switch {
			case *tier == "thorough" && *prop == "C12":
				n = len(d.pairProgs)*len(d.pairProgs) + len(d.siteJobs) + 110000
			case *tier == "thorough":
				n = 60000
			case *prop == "C12":
				n = 6000
			default:
				n = 3000
			}
		}
		os.Exit(d.check(n))
	case "replay":
		os.Exit(d.replay(*file))
	case "selftest":
		d.corpus, err = loadCorpus(*corpusDir, composerPrograms(d.seed), d.x)
		if err != nil {
			fail2("%v", err)
		}
		os.Exit(d.selftest(*native, fs.Args()))
	case "corpus":
		// debugging aid: how do the composed programs fare in the front end?
		d.corpus, err = loadCorpus(*corpusDir, composerPrograms(d.seed), d.x)
		if err != nil {
			fail2("%v", err)
		}
		ok, bad := 0, 0
		for _, p := range d.corpus.progs {
			if !strings.HasPrefix(p.Name, "composed-") {
				continue
			}
			if p.info.LowerErr != "" {
				bad++
				fmt.Printf("%s: %s\n", p.Name, firstLines(p.info.LowerErr, 2))
				if *count > 0 {
					fmt.Println(p.WGSL)
				}
			} else {
				ok++
			}
		}
		fmt.Printf("composed programs: %d lower, %d rejected; with overrides %d\n", ok, bad, len(d.corpus.withOv))
	case "gen":
		// debugging aid: print scenario number -n as JSON (step limits unset)
		d.corpus, err = loadCorpus(*corpusDir, composerPrograms(d.seed), d.x)
		if err != nil {
			fail2("%v", err)
		}
		js, _ := json.Marshal(d.generate(*count))
		fmt.Println(string(js))
	default:
		fail2("unknown mode %s", mode)
	}
}

func fail2(f string, a ...any) {
	fmt.Fprintf(os.Stderr, "TOOL-ERROR: "+f+"\n", a...)
	os.Exit(2)
}

func (d *driver) check(n int) int {
	start := time.Now()
	fmt.Printf("VERIF_SEED=%d property=%s tier=%s scenarios=%d corpus=%d (lowerable %d, with overrides %d) map_sites=%d yield_sites=%d\n",
		d.seed, d.prop, d.tier, n, len(d.corpus.progs), len(d.corpus.lowerable), len(d.corpus.withOv), d.sites.MapSites, d.sites.YieldSites)
	if d.sites.Coarse {
		fmt.Printf("COARSE MODE: library code uses goroutines/channels (%s ...): operations are atomic scheduler steps; map-order, history, aliasing and package-state checks still apply\n", firstLines(strings.Join(d.sites.CoarseReasons, "; "), 1))
	}
	if len(d.pairProgs) > 0 || len(d.siteJobs) > 0 {
		fmt.Printf("enumerated strata: T1 %d ordered reuse pairs over %d programs; T2 %d (program, operation, reached map site) triples\n", len(d.pairProgs)*len(d.pairProgs), len(d.pairProgs), len(d.siteJobs))
	}
	twinEvery := 10
	if d.tier == "thorough" {
		twinEvery = 4
	}
	workers := envInt("VERIF_WORKERS", runtime.NumCPU())
	var done atomic.Int64
	progressEvery := n / 20
	if progressEvery < 1000 {
		progressEvery = 1000
	}
	recs := make([]record, n)
	var wg sync.WaitGroup
	next := make(chan int, n)
	for i := 0; i < n; i++ {
		next <- i
	}
	close(next)
	deadline := start.Add(time.Duration(envInt("VERIF_MAX_SECONDS", 6*3600)) * time.Second)
	for w := 0; w < workers; w++ {
		wg.Add(1)
		wi := w
		go func() {
			defer wg.Done()
			var ss *session
			if os.Getenv("VERIF_FRESH") == "" {
				ss = &session{x: d.x}
				if wi%2 == 1 {
					// every other session starts its scenario processes in a
					// different simulated environment
					ss.procEnv = simrt.Mix(d.seed, 0xE0+uint64(wi)) | 1
				}
				defer ss.close()
			}
			for i := range next {
				if time.Now().After(deadline) {
					recs[i].idx = -1
					continue
				}
				sc := d.generate(i)
				rec := d.execute(ss, sc)
				rec.idx = i
				if rec.err == nil && rec.res != nil && i%twinEvery == 0 {
					// O-TWIN: the same scenario in another process must give
					// the same event log (determinism of the simulator and
					// "independent of process" at once)
					rec.twinRun = true
					res2, crashed, _, err := d.x.runFresh(sc)
					switch {
					case err != nil:
						rec.err = err
					case crashed:
						rec.twinBad = "twin process crashed"
					default:
						if d := twinDiff(rec.res, res2); d != "" {
							rec.twinBad = "results differ between two processes executing the same scenario: " + d
						} else {
							rec.twinOK = true
							if res2.LogHash != rec.res.LogHash {
								rec.twinLogDiff = true
							}
						}
					}
				}
				if len(rec.findings) == 0 {
					rec.prelude = nil
				}
				recs[i] = rec
				if c := done.Add(1); c%int64(progressEvery) == 0 {
					fmt.Fprintf(os.Stderr, "[progress] %d/%d scenarios, %d executions, %.0fs\n", c, n, d.x.runs.Load(), time.Since(start).Seconds())
				}
			}
		}()
	}
	wg.Wait()

	ev := newEvidence(d, n)
	exit := 0
	reported := map[string]bool{}
	knownPrinted := map[string]bool{}
	violations := 0
	for i := range recs {
		rec := &recs[i]
		if rec.idx < 0 {
			ev.skipped++
			continue
		}
		if rec.err != nil {
			fmt.Fprintf(os.Stderr, "TOOL-ERROR: scenario %d: %v\n", i, rec.err)
			return 2
		}
		ev.add(rec)
		fs := d.relevant(rec.findings)
		if rec.twinBad != "" {
			fs = append(fs, finding{Props: []string{d.prop}, Class: "O-TWIN", Kind: "process", Task: -1, Op: -1, Detail: rec.twinBad})
		}
		knownHere := false
		for fi := range fs {
			if fs[fi].ConsequenceOf == "" && d.known.match(d.prop, &fs[fi]) != nil {
				knownHere = true
			}
		}
		if knownHere {
			ev.scenariosWithKnown++
		} else {
			ev.scenariosFullyLive++
		}
		for fi := range fs {
			f := &fs[fi]
			if f.ConsequenceOf != "" {
				// its root cause (an I-MUT finding of the same run) is reported
				// or listed as known; never reported on its own
				ev.consequences++
				continue
			}
			if kf := d.known.match(d.prop, f); kf != nil {
				ev.known++
				if !knownPrinted[kf.What] {
					knownPrinted[kf.What] = true
					fmt.Printf("KNOWN-FINDING: property=%s %s\n", d.prop, kf.What)
				}
				continue
			}
			ev.rawFindings++
			key := f.sigClass()
			if reported[key] {
				continue
			}
			reported[key] = true
			var path string
			var rep *replayFile
			var err error
			if f.Class == "O-TWIN" {
				path, rep, err = d.reportTwin(rec, f)
			} else {
				path, rep, err = d.confirmAndShrink(rec, f)
			}
			if err != nil {
				fmt.Fprintf(os.Stderr, "TOOL-ERROR: %v\n", err)
				return 2
			}
			violations++
			exit = 1
			fmt.Printf("VIOLATION property=%s replay=%s\n", d.prop, path)
			fmt.Printf("  class=%s culprit=%s seed=%d scenario=%d family=%s\n  %s\n  minimised to %d task(s), %d operation(s), %d context switch(es)\n",
				f.Class, f.Kind, d.seed, i, rec.sc.Label, truncate(rep.Finding.Detail, 600), len(rep.Scenario.Tasks), countOps(rep.Scenario), rep.Switches)
		}
	}
	ev.violations = violations
	ev.wall = time.Since(start).Seconds()
	if err := ev.write(filepath.Join(d.verifDir, "evidence", d.prop+".json")); err != nil {
		fmt.Fprintf(os.Stderr, "TOOL-ERROR: cannot write evidence: %v\n", err)
		return 2
	}
	fmt.Printf("done: %d scenarios, %d executions in %d OS processes (%d fresh-process executions; %d references computed, %d reference cache hits), %d raw findings, %d known, %d violation classes, %.1fs\n",
		ev.evaluations, d.x.runs.Load(), d.x.procs.Load(), d.x.fresh.Load(), d.x.refRuns.Load(), d.x.refHits.Load(), ev.rawFindings, ev.known, violations, ev.wall)
	return exit
}

func truncate(s string, n int) string {
	if len(s) > n {
		return s[:n] + "..."
	}
	return s
}

func countOps(sc *proto.Scenario) int {
	n := 0
	for _, t := range sc.Tasks {
		n += len(t)
	}
	return n
}

func sortedKeys[V any](m map[string]V) []string {
	out := make([]string, 0, len(m))
	for k := range m {
		out = append(out, k)
	}
	sort.Strings(out)
	return out
}
