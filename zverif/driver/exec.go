package main

import (
	"bufio"
	"bytes"
	"context"
	"crypto/sha256"
	"encoding/hex"
	"encoding/json"
	"errors"
	"fmt"
	"io"
	"os/exec"
	"strconv"
	"strings"
	"sync"
	"sync/atomic"
	"time"

	"github.com/gogpu/naga/zverif/proto"
)

// toolError is trouble in the machinery (build, watchdog, unparsable worker
// output). It is reported with exit status 2 and never as a VIOLATION.
type toolError struct{ msg string }

func (e *toolError) Error() string { return e.msg }

func toolErrf(f string, a ...any) error { return &toolError{fmt.Sprintf(f, a...)} }

// Process model (revised during the build phase, see DESIGN.md §3.7): process
// creation in this sandbox costs ~20 ms and does not scale with cores
// (~50 processes/s in total), so the bulk of the scenarios is executed by
// persistent "serving" workers, one scenario after the other, each scenario
// building all of its objects afresh.  What a fresh process would add is
// isolation from package-level state left behind by earlier scenarios; that
// is re-established differently: every serving worker fingerprints all
// package-level variables of the compiler against their value at process
// start after every operation, reports a change (I-GLOBAL) and retires itself
// immediately.  Fresh processes are still used for: confirmation, shrinking
// and replay of every violation; the twin-process sample (O-TWIN); a sample
// of the references.
type executor struct {
	worker  string // path of the instrumented worker binary
	nSites  int
	timeout time.Duration

	runs    atomic.Int64 // scenarios executed (any mode)
	procs   atomic.Int64 // OS processes started
	fresh   atomic.Int64 // scenarios executed in a process of their own
	refRuns atomic.Int64
	refHits atomic.Int64
	crashes atomic.Int64
	retired atomic.Int64
	refMu   sync.Mutex
	refs    map[string]*refEntry
}

type refEntry struct {
	once    sync.Once
	res     *proto.OpResult
	err     error
	crashed bool     // the pristine process itself died on this chain
	visits  []uint32 // per map site: visits with >=2 entries during the pristine run
}

// server is one persistent worker process.
type server struct {
	x      *executor
	cmd    *exec.Cmd
	in     io.WriteCloser
	out    *bufio.Reader
	stderr *bytes.Buffer
	served int
	// procEnv: simulated environment in force while this process started
	procEnv uint64
}

func (x *executor) newServer(procEnv uint64) (*server, error) {
	s := &server{x: x, stderr: &bytes.Buffer{}, procEnv: procEnv}
	s.cmd = exec.Command(x.worker, "serve", strconv.Itoa(x.nSites))
	s.cmd.Env = append(s.cmd.Environ(), "GOMAXPROCS=2", "VERIF_PROC_ENV="+strconv.FormatUint(procEnv, 10))
	var err error
	if s.in, err = s.cmd.StdinPipe(); err != nil {
		return nil, toolErrf("pipe: %v", err)
	}
	so, err := s.cmd.StdoutPipe()
	if err != nil {
		return nil, toolErrf("pipe: %v", err)
	}
	s.out = bufio.NewReaderSize(so, 1<<20)
	s.cmd.Stderr = s.stderr
	if err := s.cmd.Start(); err != nil {
		return nil, toolErrf("cannot start worker: %v", err)
	}
	x.procs.Add(1)
	return s, nil
}

func (s *server) close() {
	if s == nil || s.cmd == nil {
		return
	}
	s.in.Close()
	done := make(chan struct{})
	go func() { s.cmd.Wait(); close(done) }()
	select {
	case <-done:
	case <-time.After(2 * time.Second):
		s.cmd.Process.Kill()
		<-done
	}
	s.cmd = nil
}

// session is a driver goroutine's handle on "its" serving worker; the worker
// is (re)started on demand.
type session struct {
	x   *executor
	srv *server
	// refSrv computes pristine references: its process always starts in the
	// fixed reference world (procEnv 0). procEnv is what scenario processes of
	// this session start with.
	refSrv  *server
	procEnv uint64
	// history: every scenario (as sent) that the current serving process has
	// executed, oldest first. Cleared when the process is replaced. It is the
	// "prelude" needed to replay a result that depends on what the process
	// compiled before.
	history [][]byte
}

// maxServed bounds the length of a serving process's history.
const maxServed = 250

// prelude returns the scenarios executed by the current serving process
// before the most recent one.
func (ss *session) prelude() [][]byte {
	if ss == nil || len(ss.history) < 2 {
		return nil
	}
	return append([][]byte(nil), ss.history[:len(ss.history)-1]...)
}

func (ss *session) close() {
	ss.srv.close()
	ss.srv = nil
	ss.refSrv.close()
	ss.refSrv = nil
}

// run executes a scenario on the session's serving worker.
func (ss *session) run(sc *proto.Scenario) (res *proto.Result, crashed bool, crashText string, err error) {
	x := ss.x
	isRef := sc.Label == "ref"
	slot := &ss.srv
	want := ss.procEnv
	if isRef {
		slot, want = &ss.refSrv, 0
	}
	if *slot != nil && (*slot).cmd != nil && (*slot).served >= maxServed {
		(*slot).close()
	}
	if *slot == nil || (*slot).cmd == nil {
		if *slot, err = x.newServer(want); err != nil {
			return nil, false, "", err
		}
		if !isRef {
			ss.history = nil
		}
	}
	s := *slot
	if !isRef {
		sc.ProcEnv = s.procEnv
	}
	in, err := json.Marshal(sc)
	if err != nil {
		return nil, false, "", toolErrf("marshal scenario: %v", err)
	}
	if !isRef {
		ss.history = append(ss.history, in)
	}
	x.runs.Add(1)
	s.served++
	type reply struct {
		line []byte
		err  error
	}
	ch := make(chan reply, 1)
	var strm stream
	go func() {
		if _, werr := s.in.Write(append(in, '\n')); werr != nil {
			ch <- reply{nil, werr}
			return
		}
		for {
			line, rerr := s.out.ReadBytes('\n')
			if len(line) > 0 {
				r, perr := strm.feed(line)
				if perr != nil {
					ch <- reply{line, perr}
					return
				}
				if r != nil {
					ch <- reply{line, nil}
					return
				}
			}
			if rerr != nil {
				ch <- reply{nil, rerr}
				return
			}
		}
	}()
	var rp reply
	select {
	case rp = <-ch:
	case <-time.After(x.timeout):
		s.cmd.Process.Kill()
		s.cmd.Wait()
		s.cmd = nil
		return nil, false, "", toolErrf("worker watchdog (%v) expired for scenario seed=%d label=%s", x.timeout, sc.Seed, sc.Label)
	}
	if rp.err != nil || len(rp.line) == 0 {
		// the process died while executing this scenario
		s.cmd.Wait()
		se := s.stderr.String()
		s.cmd = nil
		if strings.Contains(se, "fatal error:") || strings.Contains(se, "panic:") || strings.Contains(se, "goroutine ") {
			if len(se) > 3000 {
				se = se[:3000]
			}
			x.crashes.Add(1)
			return strm.partial(se), true, se, nil
		}
		return nil, false, "", toolErrf("serving worker died: %v: %s", rp.err, firstLines(se, 5))
	}
	res = &proto.Result{}
	if err := json.Unmarshal(bytes.TrimSpace(rp.line), res); err != nil {
		return nil, false, "", toolErrf("unparsable worker output: %v: %.200s", err, rp.line)
	}
	if res.Retire {
		x.retired.Add(1)
		s.close()
	}
	if res.Fatal != "" {
		return nil, false, "", toolErrf("worker reported: %s", res.Fatal)
	}
	return res, false, "", nil
}

// runFresh executes one scenario in a fresh OS process of its own.
func (x *executor) runFresh(sc *proto.Scenario) (res *proto.Result, crashed bool, crashText string, err error) {
	in, err := json.Marshal(sc)
	if err != nil {
		return nil, false, "", toolErrf("marshal scenario: %v", err)
	}
	ctx, cancel := context.WithTimeout(context.Background(), x.timeout)
	defer cancel()
	cmd := exec.CommandContext(ctx, x.worker, "run", "-", strconv.Itoa(x.nSites))
	cmd.Env = append(cmd.Environ(), "GOMAXPROCS=2", "VERIF_PROC_ENV="+strconv.FormatUint(sc.ProcEnv, 10))
	cmd.Stdin = bytes.NewReader(in)
	var stdout, stderr bytes.Buffer
	cmd.Stdout = &stdout
	cmd.Stderr = &stderr
	x.runs.Add(1)
	x.procs.Add(1)
	x.fresh.Add(1)
	runErr := cmd.Run()
	if ctx.Err() != nil {
		return nil, false, "", toolErrf("worker watchdog (%v) expired for scenario seed=%d label=%s", x.timeout, sc.Seed, sc.Label)
	}
	results, last := parseOutput(stdout.Bytes())
	if runErr != nil {
		var ee *exec.ExitError
		if errors.As(runErr, &ee) {
			se := stderr.String()
			if strings.Contains(se, "fatal error:") || strings.Contains(se, "panic:") || strings.Contains(se, "goroutine ") {
				if len(se) > 3000 {
					se = se[:3000]
				}
				x.crashes.Add(1)
				return last.partial(se), true, se, nil
			}
			return nil, false, "", toolErrf("worker exited with %v: %s", runErr, firstLines(se, 5))
		}
		return nil, false, "", toolErrf("cannot start worker: %v", runErr)
	}
	if len(results) != 1 {
		return nil, false, "", toolErrf("unparsable worker output: %d results: %.200s", len(results), stdout.String())
	}
	res = results[0]
	if res.Fatal != "" {
		return nil, false, "", toolErrf("worker reported: %s", res.Fatal)
	}
	return res, false, "", nil
}

// parseOutput splits a worker's stdout into the final results it contains and
// the events streamed after the last complete result.
func parseOutput(out []byte) ([]*proto.Result, *stream) {
	var results []*proto.Result
	cur := &stream{}
	for _, line := range bytes.Split(out, []byte{'\n'}) {
		r, err := cur.feed(line)
		if err != nil {
			continue
		}
		if r != nil {
			results = append(results, r)
			cur = &stream{}
		}
	}
	return results, cur
}

// runSessionFresh executes prelude scenarios and then sc, in this order, in one
// fresh OS process, and returns the result of sc.
func (x *executor) runSessionFresh(prelude [][]byte, sc *proto.Scenario) (res *proto.Result, crashed bool, crashText string, err error) {
	if len(prelude) == 0 {
		return x.runFresh(sc)
	}
	last, err := json.Marshal(sc)
	if err != nil {
		return nil, false, "", toolErrf("marshal scenario: %v", err)
	}
	var in bytes.Buffer
	in.WriteByte('[')
	for _, p := range prelude {
		in.Write(p)
		in.WriteByte(',')
	}
	in.Write(last)
	in.WriteByte(']')
	ctx, cancel := context.WithTimeout(context.Background(), 4*x.timeout)
	defer cancel()
	cmd := exec.CommandContext(ctx, x.worker, "run", "-", strconv.Itoa(x.nSites))
	cmd.Env = append(cmd.Environ(), "GOMAXPROCS=2", "VERIF_PROC_ENV="+strconv.FormatUint(sc.ProcEnv, 10))
	cmd.Stdin = &in
	var stdout, stderr bytes.Buffer
	cmd.Stdout = &stdout
	cmd.Stderr = &stderr
	x.runs.Add(int64(len(prelude) + 1))
	x.procs.Add(1)
	x.fresh.Add(1)
	runErr := cmd.Run()
	if ctx.Err() != nil {
		return nil, false, "", toolErrf("worker watchdog expired for a session of %d scenarios", len(prelude)+1)
	}
	results, tail := parseOutput(stdout.Bytes())
	if runErr != nil {
		se := stderr.String()
		if strings.Contains(se, "fatal error:") || strings.Contains(se, "panic:") {
			if len(results) == len(prelude) {
				// died in the scenario of interest
				return tail.partial(truncate(se, 3000)), true, truncate(se, 3000), nil
			}
			return nil, false, "", toolErrf("session died in prelude scenario %d of %d", len(results)+1, len(prelude))
		}
		return nil, false, "", toolErrf("worker exited with %v: %s", runErr, firstLines(se, 5))
	}
	if len(results) != len(prelude)+1 {
		return nil, false, "", toolErrf("session of %d scenarios produced %d results", len(prelude)+1, len(results))
	}
	return results[len(results)-1], false, "", nil
}

// stream accumulates the event lines a worker writes while a scenario runs.
type stream struct {
	ops     []proto.OpResult
	viol    []proto.Violation
	started []proto.Ref
}

// feed consumes one stdout line. It returns the final result when the line is
// one, nil for an event line.
func (st *stream) feed(line []byte) (*proto.Result, error) {
	line = bytes.TrimSpace(line)
	if len(line) == 0 {
		return nil, nil
	}
	if bytes.HasPrefix(line, []byte(`{"ev":"`)) {
		var ev struct {
			Ev string          `json:"ev"`
			D  json.RawMessage `json:"d"`
		}
		if err := json.Unmarshal(line, &ev); err != nil {
			return nil, nil // a torn last line of a dying process
		}
		switch ev.Ev {
		case "start":
			var r proto.Ref
			if json.Unmarshal(ev.D, &r) == nil {
				st.started = append(st.started, r)
			}
		case "op":
			var o proto.OpResult
			if json.Unmarshal(ev.D, &o) == nil {
				st.ops = append(st.ops, o)
			}
		case "viol":
			var v proto.Violation
			if json.Unmarshal(ev.D, &v) == nil {
				st.viol = append(st.viol, v)
			}
		}
		return nil, nil
	}
	res := &proto.Result{}
	if err := json.Unmarshal(line, res); err != nil {
		return nil, err
	}
	return res, nil
}

// partial builds what is known about a scenario whose process died.
func (st *stream) partial(text string) *proto.Result {
	res := &proto.Result{Crashed: true, CrashText: text, Ops: st.ops, Violations: st.viol}
	for _, r := range st.started {
		done := false
		for _, o := range st.ops {
			if o.Task == r.Task && o.Op == r.Op {
				done = true
			}
		}
		if !done {
			res.InFlight = append(res.InFlight, r)
		}
	}
	return res
}

func firstLines(s string, n int) string {
	l := strings.SplitN(s, "\n", n+1)
	if len(l) > n {
		l = l[:n]
	}
	return strings.Join(l, " | ")
}

// refScenario builds the pristine scenario whose last operation is the
// reference for one operation: only the chain of operations that creates the
// operation's input objects, then the operation itself, one task, canonical
// map order, no scheduler decisions.
func refScenario(sc *proto.Scenario, chain []proto.Ref) (*proto.Scenario, string) {
	ref := &proto.Scenario{Label: "ref", Monitor: 0}
	srcMap := map[int]int{}
	objMap := map[int]int{}
	obj := func(id int) int {
		if v, ok := objMap[id]; ok {
			return v
		}
		v := len(objMap) + 1
		objMap[id] = v
		return v
	}
	var task []proto.Op
	for _, r := range chain {
		op := sc.Tasks[r.Task][r.Op] // copy
		op.After = nil
		op.Target = nil
		op.StepLimit = 0
		switch op.Kind {
		case proto.OpLower, proto.OpOneshot:
			if _, ok := srcMap[op.Src]; !ok {
				srcMap[op.Src] = len(ref.Sources)
				ref.Sources = append(ref.Sources, sc.Sources[op.Src])
			}
			op.Src = srcMap[op.Src]
		}
		if op.Kind == proto.OpSpirvB {
			ref.Backends = []proto.SpirvOpts{sc.Backends[op.Backend]}
			op.Backend = 0
		}
		if op.Kind != proto.OpLower && op.Kind != proto.OpOneshot {
			op.Mod = obj(op.Mod)
		}
		if op.Kind == proto.OpLower || op.Kind == proto.OpResolve || op.Kind == proto.OpClone {
			op.Dst = obj(op.Dst)
		}
		if op.HLSL != nil && op.HLSL.ReuseOptions {
			h := *op.HLSL
			h.ReuseOptions = false
			op.HLSL = &h
		}
		task = append(task, op)
	}
	ref.Tasks = [][]proto.Op{task}
	ref.Sched.Explicit = []proto.Slice{}
	js, _ := json.Marshal(ref)
	h := sha256.Sum256(js)
	return ref, hex.EncodeToString(h[:16])
}

// reference returns the pristine result for the operation at the end of chain.
// With ss == nil the reference is computed in a fresh process of its own (and
// not cached): used when confirming, shrinking and replaying violations.
func (x *executor) reference(ss *session, sc *proto.Scenario, chain []proto.Ref) (*proto.OpResult, bool, error) {
	ref, key := refScenario(sc, chain)
	if ss == nil {
		key = "fresh:" + key
	}
	x.refMu.Lock()
	e, ok := x.refs[key]
	if !ok {
		e = &refEntry{}
		x.refs[key] = e
	} else {
		x.refHits.Add(1)
	}
	x.refMu.Unlock()
	e.once.Do(func() {
		x.refRuns.Add(1)
		var res *proto.Result
		var crashed bool
		var err error
		if ss == nil {
			res, crashed, _, err = x.runFresh(ref)
		} else {
			res, crashed, _, err = ss.run(ref)
		}
		if err != nil {
			e.err = err
			return
		}
		if crashed {
			e.crashed = true
			return
		}
		last := res.Ops[len(res.Ops)-1]
		e.res = &last
		e.visits = res.Stats.MapVisits
	})
	return e.res, e.crashed, e.err
}

// referenceVisits: which map sites (with >=2 entries) the pristine run of this
// chain walked.
func (x *executor) referenceVisits(ss *session, sc *proto.Scenario, chain []proto.Ref) []uint32 {
	if _, _, err := x.reference(ss, sc, chain); err != nil {
		return nil
	}
	_, key := refScenario(sc, chain)
	x.refMu.Lock()
	defer x.refMu.Unlock()
	if e, ok := x.refs[key]; ok {
		return e.visits
	}
	return nil
}
