package main

import (
	"encoding/json"
	"fmt"
	"os"
	"path/filepath"
	"strings"
	"time"

	"github.com/gogpu/naga/zverif/proto"
	"github.com/gogpu/naga/zverif/simrt"
)

// replayFile is the self-contained record of one violation: replaying it is a
// pure function of this file and the code under /repo.
type replayFile struct {
	Property  string          `json:"property"`
	Finding   finding         `json:"finding"`
	VerifSeed uint64          `json:"verif_seed"`
	Index     int             `json:"scenario_index"`
	Family    string          `json:"family"`
	Scenario  *proto.Scenario `json:"scenario"` // carries the explicit schedule and the map-order fault
	// Prelude: scenarios that the same OS process must execute first (only for
	// violations that depend on what the process compiled before).
	Prelude   []json.RawMessage `json:"prelude,omitempty"`
	Meta      ovMeta            `json:"override_meta,omitempty"`
	Switches  int               `json:"context_switches"`
	PermSites []string          `json:"permuted_sites,omitempty"` // file:line of the map ranges named in scenario.perm.sites
	Original  struct {
		Tasks, Ops, Slices int
	} `json:"original_size"`
	ShrinkRuns int    `json:"shrink_executions"`
	HowTo      string `json:"how_to_replay"`
}

func cloneScenario(sc *proto.Scenario) *proto.Scenario {
	b, _ := json.Marshal(sc)
	out := &proto.Scenario{}
	json.Unmarshal(b, out)
	return out
}

// eval executes a candidate and returns the finding that preserves the
// signature class, if any.
func (d *driver) eval(sc *proto.Scenario, want string) (*finding, *proto.Result, error) {
	return d.evalWith(nil, sc, want)
}

func (d *driver) evalWith(prelude [][]byte, sc *proto.Scenario, want string) (*finding, *proto.Result, error) {
	rec := d.executeWith(nil, prelude, sc) // fresh processes only
	if rec.err != nil {
		return nil, nil, rec.err
	}
	for i := range rec.findings {
		f := &rec.findings[i]
		if f.has(d.prop) && f.sigClass() == want && f.ConsequenceOf == "" {
			return f, rec.res, nil
		}
	}
	return nil, rec.res, nil
}

func countSwitches(s []proto.Slice) int {
	n := 0
	for _, sl := range s {
		if !sl.ToBoundary {
			n++
		}
	}
	return n
}

// removeOp deletes operation (t,o), re-pointing references. It refuses when
// the operation creates an object that is still used.
func removeOp(sc *proto.Scenario, t, o int) bool {
	op := sc.Tasks[t][o]
	if isCreator(op.Kind) {
		for ti := range sc.Tasks {
			for oi := range sc.Tasks[ti] {
				u := &sc.Tasks[ti][oi]
				if ti == t && oi == o {
					continue
				}
				if u.Kind != proto.OpLower && u.Kind != proto.OpOneshot && u.Kind != proto.OpScribble && u.Mod == op.Dst {
					return false
				}
			}
		}
	}
	fix := func(r proto.Ref) (proto.Ref, bool) {
		if r.Task != t {
			return r, true
		}
		if r.Op == o {
			// depend on the predecessor in the same task instead (program order)
			if o == 0 {
				return r, false
			}
			return proto.Ref{Task: t, Op: o - 1}, true
		}
		if r.Op > o {
			r.Op--
		}
		return r, true
	}
	var inherited []proto.Ref = op.After
	sc.Tasks[t] = append(sc.Tasks[t][:o:o], sc.Tasks[t][o+1:]...)
	for ti := range sc.Tasks {
		for oi := 0; oi < len(sc.Tasks[ti]); oi++ {
			u := &sc.Tasks[ti][oi]
			var after []proto.Ref
			for _, a := range u.After {
				if a.Task == t && a.Op == o {
					// inherit the removed operation's own dependencies
					for _, ia := range inherited {
						if f, ok := fix(ia); ok {
							after = append(after, f)
						}
					}
				}
				if f, ok := fix(a); ok {
					after = append(after, f)
				}
			}
			u.After = after
			if u.Target != nil {
				if u.Target.Task == t && u.Target.Op == o {
					u.Kind = "noop-removed"
				} else if f, ok := fix(*u.Target); ok {
					u.Target = &f
				}
			}
		}
	}
	// drop scribbles whose target vanished
	for ti := range sc.Tasks {
		for oi := len(sc.Tasks[ti]) - 1; oi >= 0; oi-- {
			if sc.Tasks[ti][oi].Kind == "noop-removed" {
				removeOp(sc, ti, oi)
			}
		}
	}
	return true
}

func removeTask(sc *proto.Scenario, t int) bool {
	for len(sc.Tasks[t]) > 0 {
		if !removeOp(sc, t, len(sc.Tasks[t])-1) {
			return false
		}
	}
	sc.Tasks = append(sc.Tasks[:t:t], sc.Tasks[t+1:]...)
	for ti := range sc.Tasks {
		for oi := range sc.Tasks[ti] {
			u := &sc.Tasks[ti][oi]
			var after []proto.Ref
			for _, a := range u.After {
				if a.Task == t {
					continue
				}
				if a.Task > t {
					a.Task--
				}
				after = append(after, a)
			}
			u.After = after
			if u.Target != nil && u.Target.Task > t {
				u.Target.Task--
			}
		}
	}
	var ex []proto.Slice
	for _, s := range sc.Sched.Explicit {
		if s.Task == t {
			continue
		}
		if s.Task > t {
			s.Task--
		}
		ex = append(ex, s)
	}
	if sc.Sched.Explicit != nil {
		if ex == nil {
			ex = []proto.Slice{}
		}
		sc.Sched.Explicit = ex
	}
	if sc.Sched.StarveTask == t+1 {
		sc.Sched.StarveTask = 0
	} else if sc.Sched.StarveTask > t+1 {
		sc.Sched.StarveTask--
	}
	return true
}

func (d *driver) confirmAndShrink(rec *record, f *finding) (string, *replayFile, error) {
	want := f.sigClass()
	rep := &replayFile{Property: d.prop, VerifSeed: d.seed, Index: rec.idx, Family: rec.sc.Label, Meta: ovMeta{}}
	rep.Original.Tasks, rep.Original.Ops = len(rec.sc.Tasks), countOps(rec.sc)
	cur := cloneScenario(rec.sc)
	if rec.res != nil {
		cur.Sched.Explicit = append([]proto.Slice{}, rec.res.Schedule...)
		rep.Original.Slices = len(rec.res.Schedule)
	}
	best := *f
	runs := 0
	// 1. confirm: the explicit-schedule form must reproduce, twice, in fresh
	// processes. If it does not, the violation may depend on what the serving
	// process had compiled earlier: retry with that prelude in the same process
	// and, if it reproduces, minimise the prelude.
	var prelude [][]byte
	{
		for k := 0; k < 2; k++ {
			g, res, err := d.evalWith(prelude, cloneScenario(cur), want)
			runs++
			if err != nil {
				return "", nil, err
			}
			if g == nil && prelude == nil && len(rec.prelude) > 0 {
				prelude = rec.prelude
				k = -1
				continue
			}
			if g == nil {
				return "", nil, toolErrf("violation %s of scenario %d (seed %d) did not reproduce from its recorded schedule (run %d, prelude of %d scenarios); refusing to report it", want, rec.idx, d.seed, k+1, len(prelude))
			}
			best = *g
			if res != nil && !res.Crashed {
				cur.Sched.Explicit = append([]proto.Slice{}, res.Schedule...)
			}
		}
		// ddmin over the prelude
		for chunk := (len(prelude) + 1) / 2; len(prelude) > 0 && chunk >= 1; chunk /= 2 {
			for lo := 0; lo < len(prelude); {
				hi := lo + chunk
				if hi > len(prelude) {
					hi = len(prelude)
				}
				cand := append(append([][]byte{}, prelude[:lo]...), prelude[hi:]...)
				g, _, err := d.evalWith(cand, cloneScenario(cur), want)
				runs++
				if err == nil && g != nil {
					prelude = cand
				} else {
					lo = hi
				}
			}
			if chunk == 1 {
				break
			}
		}
		if len(prelude) > 0 {
			best.Detail = fmt.Sprintf("[depends on process history: reproduces only after %d earlier scenario(s) in the same OS process] ", len(prelude)) + best.Detail
		}
	}
	// Each phase gets its own allowance of executions (so that a long phase
	// cannot starve the later ones) under one overall wall-clock limit.
	deadline := time.Now().Add(time.Duration(envInt("VERIF_SHRINK_SECONDS", 150)) * time.Second)
	phaseRuns := envInt("VERIF_SHRINK_RUNS", 160)
	budget := runs + phaseRuns
	phase := func() { budget = runs + phaseRuns }
	try := func(cand *proto.Scenario) bool {
		if runs >= budget || time.Now().After(deadline) {
			return false
		}
		runs++
		g, res, err := d.evalWith(prelude, cand, want)
		if err != nil || g == nil {
			return false
		}
		// keep the schedule that was actually taken, so the file replays exactly
		// (a run whose process died keeps its seeded schedule: deterministic too)
		if res != nil && !res.Crashed {
			cand.Sched.Explicit = append([]proto.Slice{}, res.Schedule...)
		}
		cur = cand
		best = *g
		return true
	}
	if rec.res != nil || rec.crashed != "" {
		// 2. sequential schedule
		c := cloneScenario(cur)
		c.Sched.Explicit = []proto.Slice{}
		try(c)
		// 3. no map-order fault at all
		if cur.Perm.Mode != "" && cur.Perm.Mode != simrt.PermCanonical {
			c := cloneScenario(cur)
			c.Perm = simrt.PermSpec{Mode: simrt.PermCanonical}
			if !try(c) {
				c := cloneScenario(cur)
				c.Perm = simrt.PermSpec{Mode: simrt.PermReverse, All: true}
				try(c)
			}
		}
		phase()
		for changed := true; changed && runs < budget && time.Now().Before(deadline); {
			changed = false
			// 4. drop tasks
			for t := len(cur.Tasks) - 1; t >= 0 && len(cur.Tasks) > 1; t-- {
				c := cloneScenario(cur)
				if removeTask(c, t) && try(c) {
					changed = true
				}
			}
			// 5. drop operations
			for t := len(cur.Tasks) - 1; t >= 0; t-- {
				for o := len(cur.Tasks[t]) - 1; o >= 0; o-- {
					if t >= len(cur.Tasks) || o >= len(cur.Tasks[t]) {
						continue
					}
					c := cloneScenario(cur)
					if removeOp(c, t, o) && try(c) {
						changed = true
					}
				}
			}
		}
		phase()
		// 6. sequential again (often possible only after dropping tasks)
		if countSwitches(cur.Sched.Explicit) > 0 {
			c := cloneScenario(cur)
			c.Sched.Explicit = []proto.Slice{}
			try(c)
		}
		// 7. fewer context switches: let pre-empted slices run on to their
		// operation boundary instead, in chunks of decreasing size (ddmin)
		exhausted := func() bool { return runs >= budget || time.Now().After(deadline) }
	switchLoop:
		for chunk := (countSwitches(cur.Sched.Explicit) + 1) / 2; chunk >= 1; chunk /= 2 {
			for again := true; again; {
				again = false
				if exhausted() {
					break switchLoop
				}
				var idx []int
				for i, sl := range cur.Sched.Explicit {
					if !sl.ToBoundary {
						idx = append(idx, i)
					}
				}
				for lo := 0; lo < len(idx); lo += chunk {
					if exhausted() {
						break switchLoop
					}
					hi := lo + chunk
					if hi > len(idx) {
						hi = len(idx)
					}
					c := cloneScenario(cur)
					for _, i := range idx[lo:hi] {
						c.Sched.Explicit[i].ToBoundary = true
					}
					if try(c) {
						again = true
						break
					}
				}
			}
			if chunk == 1 {
				break
			}
		}
		phase()
		// 8. smallest set of permuted map sites
		if cur.Perm.Mode != "" && cur.Perm.Mode != simrt.PermCanonical {
			// sites that actually saw a non-identity order
			g, res, err := d.evalWith(prelude, cloneScenario(cur), want)
			runs++
			if err == nil && g != nil && res != nil {
				var sites []uint32
				for s, n := range res.Stats.MapPermuted {
					if n > 0 {
						sites = append(sites, uint32(s))
					}
				}
				if len(sites) > 0 {
					c := cloneScenario(cur)
					c.Perm.All, c.Perm.Sites = false, sites
					if try(c) {
						for i := len(cur.Perm.Sites) - 1; i >= 0 && len(cur.Perm.Sites) > 1; i-- {
							c := cloneScenario(cur)
							c.Perm.Sites = append(append([]uint32{}, c.Perm.Sites[:i]...), c.Perm.Sites[i+1:]...)
							try(c)
						}
						if cur.Perm.Mode != simrt.PermReverse {
							c := cloneScenario(cur)
							c.Perm.Mode = simrt.PermReverse
							try(c)
						}
					}
				}
			}
		}
		// 9. unused sources and backends are dropped by re-indexing
		cur = compactSources(cur)
	}
	cur.Dump = false
	rep.Scenario = cur
	for _, p := range prelude {
		rep.Prelude = append(rep.Prelude, json.RawMessage(p))
	}
	rep.Finding = best
	rep.Switches = countSwitches(cur.Sched.Explicit)
	rep.ShrinkRuns = runs
	for _, s := range cur.Sources {
		if ov, ok := d.meta[s.Name]; ok && len(ov) > 0 {
			rep.Meta[s.Name] = ov
		}
	}
	for _, s := range cur.Perm.Sites {
		for _, m := range d.sites.Maps {
			if uint32(m.ID) == s {
				rep.PermSites = append(rep.PermSites, fmt.Sprintf("site %d = %s (%s)", m.ID, m.Pos, m.Func))
			}
		}
	}
	dir := filepath.Join(d.verifDir, "replays")
	os.MkdirAll(dir, 0o755)
	name := fmt.Sprintf("%s-%s-%s-seed%d-%d.json", d.prop, strings.ReplaceAll(best.Class, "/", "_"), best.Kind, d.seed, rec.idx)
	path := filepath.Join(dir, name)
	rep.HowTo = "cd /verif && ./check replay " + path
	js, _ := json.MarshalIndent(rep, "", " ")
	if err := os.WriteFile(path, js, 0o644); err != nil {
		return "", nil, toolErrf("cannot write replay file: %v", err)
	}
	return path, rep, nil
}

// compactSources drops sources no operation refers to.
func compactSources(sc *proto.Scenario) *proto.Scenario {
	used := map[int]bool{}
	for ti := range sc.Tasks {
		for oi := range sc.Tasks[ti] {
			o := &sc.Tasks[ti][oi]
			if o.Kind == proto.OpLower || o.Kind == proto.OpOneshot {
				used[o.Src] = true
			}
		}
	}
	if len(used) == len(sc.Sources) {
		return sc
	}
	remap := map[int]int{}
	var srcs []proto.Source
	for i, s := range sc.Sources {
		if used[i] {
			remap[i] = len(srcs)
			srcs = append(srcs, s)
		}
	}
	out := cloneScenario(sc)
	out.Sources = srcs
	for ti := range out.Tasks {
		for oi := range out.Tasks[ti] {
			o := &out.Tasks[ti][oi]
			if o.Kind == proto.OpLower || o.Kind == proto.OpOneshot {
				o.Src = remap[o.Src]
			}
		}
	}
	return out
}

// replay re-executes a replay file against the current tree, twice, in fresh
// processes.
func (d *driver) replay(path string) int {
	b, err := os.ReadFile(path)
	if err != nil {
		fail2("%v", err)
	}
	var rep replayFile
	if err := json.Unmarshal(b, &rep); err != nil {
		fail2("bad replay file: %v", err)
	}
	d.prop = rep.Property
	d.meta = rep.Meta
	if d.meta == nil {
		d.meta = ovMeta{}
	}
	if rep.Finding.Class == "O-TWIN" {
		var first *proto.Result
		for k := 0; k < 8; k++ {
			res, crashed, _, err := d.x.runFresh(cloneScenario(rep.Scenario))
			if err != nil {
				fail2("%v", err)
			}
			if crashed {
				fmt.Printf("VIOLATION property=%s replay=%s\n  class=O-TWIN: process crashed\n", rep.Property, path)
				return 1
			}
			if first == nil {
				first = res
			} else if diff := twinDiff(first, res); diff != "" {
				fmt.Printf("VIOLATION property=%s replay=%s\n  class=O-TWIN %s\n", rep.Property, path, diff)
				return 1
			}
		}
		fmt.Printf("NOT REPRODUCED: 8 fresh processes returned identical results\n")
		return 0
	}
	want := rep.Finding.sigClass()
	fmt.Printf("replaying %s: property=%s class=%s culprit=%s (seed %d, scenario %d)\n", path, rep.Property, rep.Finding.Class, rep.Finding.Kind, rep.VerifSeed, rep.Index)
	var got [2]*finding
	var hashes [2]string
	var prelude [][]byte
	for _, p := range rep.Prelude {
		prelude = append(prelude, []byte(p))
	}
	for k := 0; k < 2; k++ {
		g, res, err := d.evalWith(prelude, cloneScenario(rep.Scenario), want)
		if err != nil {
			fail2("%v", err)
		}
		got[k] = g
		if res != nil {
			hashes[k] = res.LogHash
		}
	}
	if (got[0] == nil) != (got[1] == nil) || hashes[0] != hashes[1] {
		fmt.Fprintf(os.Stderr, "TOOL-ERROR: two replays of the same file disagree (%v/%s vs %v/%s)\n", got[0] != nil, hashes[0], got[1] != nil, hashes[1])
		return 2
	}
	if got[0] == nil {
		fmt.Printf("NOT REPRODUCED: the recorded violation does not occur on the current tree (event log %s)\n", hashes[0])
		return 0
	}
	fmt.Printf("VIOLATION property=%s replay=%s\n  class=%s culprit=%s\n  %s\n  (event log %s, identical in both replays)\n", rep.Property, path, got[0].Class, got[0].Kind, truncate(got[0].Detail, 1200), hashes[0])
	return 1
}

// reportTwin handles a twin-process mismatch: the scenario is re-executed in
// several fresh processes; the violation is reported when two of them return
// different results to their callers.
func (d *driver) reportTwin(rec *record, f *finding) (string, *replayFile, error) {
	sc := cloneScenario(rec.sc)
	if rec.res != nil {
		sc.Sched.Explicit = append([]proto.Slice{}, rec.res.Schedule...)
	}
	var first *proto.Result
	diff := ""
	for k := 0; k < 6 && diff == ""; k++ {
		res, crashed, _, err := d.x.runFresh(cloneScenario(sc))
		if err != nil {
			return "", nil, err
		}
		if crashed {
			diff = "one of the processes crashed"
			break
		}
		if first == nil {
			first = res
			continue
		}
		diff = twinDiff(first, res)
	}
	if diff == "" && rec.res != nil && first != nil {
		// fresh processes agree among themselves: compare with the serving worker's result
		diff = twinDiff(rec.res, first)
		if diff != "" {
			diff = "a process that had executed other scenarios before returns different results than a fresh process: " + diff
		}
	}
	if diff == "" {
		return "", nil, toolErrf("twin-process mismatch of scenario %d (seed %d) did not reproduce; refusing to report it", rec.idx, d.seed)
	}
	rep := &replayFile{Property: d.prop, VerifSeed: d.seed, Index: rec.idx, Family: rec.sc.Label, Meta: ovMeta{}, Scenario: sc}
	g := *f
	g.Detail = diff
	rep.Finding = g
	rep.Switches = countSwitches(sc.Sched.Explicit)
	dir := filepath.Join(d.verifDir, "replays")
	os.MkdirAll(dir, 0o755)
	path := filepath.Join(dir, fmt.Sprintf("%s-O-TWIN-seed%d-%d.json", d.prop, d.seed, rec.idx))
	rep.HowTo = "cd /verif && ./check replay " + path
	js, _ := json.MarshalIndent(rep, "", " ")
	if err := os.WriteFile(path, js, 0o644); err != nil {
		return "", nil, toolErrf("cannot write replay file: %v", err)
	}
	return path, rep, nil
}
