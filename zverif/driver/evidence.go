package main

import (
	"crypto/sha256"
	"encoding/hex"
	"encoding/json"
	"fmt"
	"os"
	"path/filepath"
	"sort"
	"strings"

	"github.com/gogpu/naga/zverif/proto"
	"github.com/gogpu/naga/zverif/simrt"
)

// evidence accumulates what a run actually covered; every number is measured.
type evidence struct {
	d                  *driver
	planned            int
	evaluations        int
	skipped            int
	distinct           map[string]bool // distinct non-trivial scenario hashes
	interleave         map[string]bool // distinct switch-sequence hashes (with >=1 switch)
	families           map[string]int
	strata             map[string]int
	faults             map[string]int
	opKinds            map[string]int
	opOutcomes         map[string]int
	pairs              map[string]int
	steps              uint64
	switches           uint64
	overlaps           uint64
	slices             int
	monitorRuns        int
	mapVisits          []uint64
	mapPermuted        []uint64
	twinRuns           int
	twinOK             int
	crashes            int
	reuseAfterFail     int
	histories2         int
	rawFindings        int
	consequences       int
	syncedWrites       int
	scenariosWithKnown int
	scenariosFullyLive int
	touches            uint64
	twinLogDiffs       int
	known              int
	violations         int
	wall               float64
	samples            []any
	sourcesUsed        map[string]bool
}

func newEvidence(d *driver, planned int) *evidence {
	return &evidence{d: d, planned: planned, distinct: map[string]bool{}, interleave: map[string]bool{}, families: map[string]int{},
		strata: map[string]int{}, faults: map[string]int{}, opKinds: map[string]int{}, opOutcomes: map[string]int{}, pairs: map[string]int{},
		mapVisits: make([]uint64, d.sites.MapSites+1), mapPermuted: make([]uint64, d.sites.MapSites+1), sourcesUsed: map[string]bool{}}
}

func scenarioHash(sc *proto.Scenario, res *proto.Result) string {
	c := *sc
	srcs := make([]proto.Source, len(c.Sources))
	for i, s := range c.Sources {
		h := sha256.Sum256([]byte(s.WGSL))
		srcs[i] = proto.Source{Name: s.Name, WGSL: hex.EncodeToString(h[:8])}
	}
	c.Sources = srcs
	c.Seed = 0
	js, _ := json.Marshal(&c)
	h := sha256.New()
	h.Write(js)
	if res != nil {
		h.Write([]byte(res.Stats.SwitchHash))
	}
	return hex.EncodeToString(h.Sum(nil)[:12])
}

func (e *evidence) add(rec *record) {
	e.evaluations++
	sc := rec.sc
	e.families[sc.Label]++
	for _, s := range sc.Sources {
		e.sourcesUsed[s.Name] = true
	}
	if rec.crashed != "" {
		e.crashes++
	}
	if rec.twinRun {
		e.twinRuns++
		if rec.twinOK {
			e.twinOK++
		}
		if rec.twinLogDiff {
			e.twinLogDiffs++
		}
	}
	res := rec.res
	if res == nil {
		return
	}
	st := &res.Stats
	e.steps += st.Steps
	e.switches += st.Switches
	e.overlaps += st.Overlap
	e.slices += st.Slices
	e.monitorRuns += st.MonitorRuns
	effectivePerm := false
	for i, n := range st.MapVisits {
		if i < len(e.mapVisits) {
			e.mapVisits[i] += uint64(n)
		}
	}
	for i, n := range st.MapPermuted {
		if i < len(e.mapPermuted) {
			e.mapPermuted[i] += uint64(n)
		}
		if n > 0 {
			effectivePerm = true
		}
	}
	for _, p := range st.Pairs {
		e.pairs[p]++
	}
	// fault kinds that actually fired
	if effectivePerm {
		e.faults["maporder:"+sc.Perm.Mode]++
	}
	if st.Switches > 0 {
		e.faults["preempt"]++
	}
	if st.Stalls > 0 || sc.Sched.StarveTask > 0 {
		e.faults["stall"]++
	}
	if st.PoolDrops > 0 {
		e.faults["pooldrop"]++
	}
	if st.SyncPoints > 0 {
		e.faults["syncpoint-runs"]++
	}
	if st.EnvReads > 0 && sc.EnvSeed != 0 {
		e.faults["environment"]++
	}
	if sc.Sched.WritePreempt > 0 && st.Switches > 0 {
		e.faults["preempt-before-write"]++
	}
	e.syncedWrites += st.SyncedGlobalWrites
	e.touches += st.Touches
	failops, scribbles, handoff := 0, 0, false
	perBackend := map[int]int{}
	lastFailed := map[int]bool{}
	for _, o := range res.Ops {
		e.opKinds[o.Kind]++
		switch {
		case !o.Done:
			e.opOutcomes["not-run"]++
		case o.Panic != "":
			e.opOutcomes["panic"]++
		case o.OK:
			e.opOutcomes["ok"]++
		default:
			e.opOutcomes["error"]++
			if isBackendKind(o.Kind) {
				failops++
			}
		}
		if o.Kind == proto.OpScribble {
			scribbles++
		}
		if o.Kind == proto.OpSpirvB && o.Done {
			be := sc.Tasks[o.Task][o.Op].Backend
			if lastFailed[be] {
				e.reuseAfterFail++
			}
			lastFailed[be] = !o.OK
			perBackend[be]++
		}
	}
	for ti := range sc.Tasks {
		for oi := range sc.Tasks[ti] {
			op := &sc.Tasks[ti][oi]
			if op.Kind == proto.OpSpirvB {
				for _, a := range op.After {
					if a.Task != ti && sc.Tasks[a.Task][a.Op].Kind == proto.OpSpirvB && sc.Tasks[a.Task][a.Op].Backend == op.Backend {
						handoff = true
					}
				}
			}
		}
	}
	if failops > 0 {
		e.faults["failop"]++
	}
	if scribbles > 0 {
		e.faults["scribble"]++
	}
	if handoff {
		e.faults["handoff"]++
	}
	history := false
	for _, n := range perBackend {
		if n >= 2 {
			history = true
		}
	}
	// histories of >= 2 backend operations on one module object
	perMod := map[int]int{}
	for ti := range sc.Tasks {
		for oi := range sc.Tasks[ti] {
			op := &sc.Tasks[ti][oi]
			if isBackendKind(op.Kind) {
				perMod[op.Mod]++
			}
		}
	}
	for _, n := range perMod {
		if n >= 2 {
			history = true
		}
	}
	if history {
		e.histories2++
	}
	// strata
	faultFree := !effectivePerm && st.Switches == 0 && failops == 0 && scribbles == 0
	if faultFree {
		e.strata["fault-free (canonical order, no pre-emption)"]++
	} else {
		e.strata["fault-injecting"]++
	}
	nontrivial := st.Overlap > 0 || effectivePerm || history
	if nontrivial {
		e.distinct[scenarioHash(sc, res)] = true
	}
	if st.Switches > 0 {
		e.interleave[st.SwitchHash] = true
	}
	if len(e.samples) < 4 && nontrivial && (len(e.samples) == 0 || e.evaluations%97 == 0) {
		e.samples = append(e.samples, sampleOf(rec))
	}
}

func sampleOf(rec *record) any {
	sc := cloneScenario(rec.sc)
	for i := range sc.Sources {
		h := sha256.Sum256([]byte(sc.Sources[i].WGSL))
		sc.Sources[i].WGSL = fmt.Sprintf("<%d bytes, sha256 %s; text from the corpus/composer>", len(rec.sc.Sources[i].WGSL), hex.EncodeToString(h[:8]))
	}
	type opSummary struct {
		Task  int    `json:"t"`
		Op    int    `json:"o"`
		Kind  string `json:"kind"`
		OK    bool   `json:"ok"`
		Steps uint64 `json:"steps"`
		Start uint64 `json:"start"`
		End   uint64 `json:"end"`
		Out   string `json:"out,omitempty"`
	}
	var ops []opSummary
	for _, o := range rec.res.Ops {
		ops = append(ops, opSummary{o.Task, o.Op, o.Kind, o.OK, o.Steps, o.Start, o.End, o.OutHash})
	}
	sched := rec.res.Schedule
	if len(sched) > 40 {
		sched = sched[:40]
	}
	return map[string]any{"scenario_index": rec.idx, "scenario": sc, "results": ops, "schedule_prefix": sched,
		"schedule_slices": len(rec.res.Schedule), "switches": rec.res.Stats.Switches, "overlap_switches": rec.res.Stats.Overlap,
		"event_log_hash": rec.res.LogHash}
}

func (e *evidence) write(path string) error {
	d := e.d
	hours := e.wall / 3600
	if hours <= 0 {
		hours = 1e-9
	}
	var blind, visited []string
	effSites := 0
	for _, m := range d.sites.Maps {
		v, p := e.mapVisits[m.ID], e.mapPermuted[m.ID]
		desc := fmt.Sprintf("site %d %s (%s): visits>=2 entries %d, permuted %d", m.ID, m.Pos, m.Func, v, p)
		if v == 0 {
			blind = append(blind, desc)
		} else {
			visited = append(visited, desc)
			if p > 0 {
				effSites++
			}
		}
	}
	var audit []string
	for _, a := range d.sites.Audit {
		audit = append(audit, a.Kind+" "+a.Pos+" "+a.Text)
	}
	mode := "fine (every goroutine switch and map order decided by the simulator)"
	if len(audit) > 0 {
		mode = "fine; the listed constructs are not owned by the simulator"
	}
	if d.sites.Coarse {
		mode = "COARSE: library code starts goroutines / uses channels (" + strings.Join(d.sites.CoarseReasons, "; ") + "): operations are atomic scheduler steps, no interleaving of callers is explored; map-order, history, aliasing and package-state checks still apply"
	}
	rule := "Scenario i is a pure function of (VERIF_SEED, i): family, sources, operations, options, map-order fault and schedule seed are drawn from splitmix(VERIF_SEED,i). " +
		"A scenario is counted in distinct_nontrivial when its (operations, options, faults, recorded switch sequence) hash is new AND at least one of: " +
		"a context switch landed inside an operation while another operation was in flight on the same module; a map range with >=2 entries was walked in a non-canonical order; " +
		"a history of >=2 backend operations ran on one module or on one reusable spirv.Backend."
	cov := map[string]any{
		"evaluations":                        e.evaluations,
		"distinct_nontrivial":                len(e.distinct),
		"rule":                               rule,
		"samples":                            e.samples,
		"exhaustive":                         false,
		"planned_scenarios":                  e.planned,
		"skipped_by_wall_clock_cap":          e.skipped,
		"scenarios_per_hour":                 int(float64(e.evaluations) / hours),
		"seeds_per_hour":                     int(float64(e.evaluations) / hours),
		"executions":                         d.x.runs.Load(),
		"os_processes_started":               d.x.procs.Load(),
		"fresh_process_executions":           d.x.fresh.Load(),
		"serving_workers_retired":            d.x.retired.Load(),
		"references_computed":                d.x.refRuns.Load(),
		"reference_cache_hits":               d.x.refHits.Load(),
		"simulated_time_logical_steps":       e.steps,
		"context_switches_inside_operations": e.switches,
		"switches_with_other_operation_in_flight_on_same_module": e.overlaps,
		"scheduler_slices":               e.slices,
		"invariant_evaluations":          e.monitorRuns,
		"distinct_interleavings":         len(e.interleave),
		"distinct_interleavings_measure": "distinct hashes of the sequence of (task, operation, yield site) at which pre-emptions landed, over runs with >=1 pre-emption",
		"families":                       e.families,
		"strata":                         e.strata,
		"faults_fired_runs":              e.faults,
		"operations_by_kind":             e.opKinds,
		"operation_outcomes":             e.opOutcomes,
		"backend_pairs_running_vs_in_flight_on_same_module": e.pairs,
		"histories_with_2plus_backend_ops_on_one_object":    e.histories2,
		"spirv_backend_reused_after_failed_compile":         e.reuseAfterFail,
		"map_sites_total":                      d.sites.MapSites,
		"map_sites_visited_with_2plus_entries": len(visited),
		"map_sites_effectively_permuted":       effSites,
		"map_sites_blind_spots":                blind,
		"map_sites_visited":                    visited,
		"twin_process_runs":                    e.twinRuns,
		"twin_process_identical":               e.twinOK,
		"worker_process_crashes":               e.crashes,
		"distinct_sources_used":                len(e.sourcesUsed),
		"corpus_sources":                       len(d.corpus.progs),
		"raw_findings":                         e.rawFindings,
		"known_findings_matched":               e.known,
		"scenarios_in_which_a_known_finding_fired_downstream_comparisons_on_that_module_masked": e.scenariosWithKnown,
		"scenarios_without_any_known_finding_all_comparisons_live":                              e.scenariosFullyLive,
		"race_detector": map[string]any{"tracked_package_level_variables": d.sites.RaceVars, "instrumented_access_sites": d.sites.TouchSites, "accesses_observed": e.touches, "exempt_packages": d.sites.RaceExemptPkgs},
		"enumerated_strata": map[string]any{
			"T1_reuse_pairs_on_one_spirv_backend": map[string]any{"programs": len(d.pairProgs), "ordered_pairs": len(d.pairProgs) * len(d.pairProgs), "executed": e.families["T1-reuse-pair"], "exhaustive": len(d.pairProgs) > 0 && e.families["T1-reuse-pair"] == len(d.pairProgs)*len(d.pairProgs)},
			"T2_one_map_site_reversed_at_a_time":  map[string]any{"program_operation_site_triples_reached": len(d.siteJobs), "executed": e.families["T2-single-site"], "exhaustive": len(d.siteJobs) > 0 && e.families["T2-single-site"] == len(d.siteJobs)},
		},
		"package_state_writes_in_packages_with_sync_primitives_not_judged": e.syncedWrites,
		"mismatches_attributed_to_a_reported_or_known_module_alteration":   e.consequences,
		"twin_runs_with_identical_results_but_different_event_log":         e.twinLogDiffs,
		"instrumentation": map[string]any{"yield_sites": d.sites.YieldSites, "of_which_before_non_local_writes": d.sites.WriteYields, "map_sites": d.sites.MapSites, "package_level_variables_monitored": d.sites.Globals,
			"sync_seams_redirected": d.sites.SyncSeams, "seam_audit_unowned_constructs": audit, "mode": mode, "packages": d.sites.Packages},
		"components": map[string]any{
			"real_code":    "all compiler packages of /repo's current working tree (wgsl lexer/parser/lowerer, ir passes and validator, spirv, msl, glsl, hlsl, dxil back ends), built from an instrumented scratch copy; public API only",
			"simulated":    []string{"goroutine scheduling (cooperative token, PRNG or explicit schedule)", "map iteration order (RangeMap seam at every map range)", "sync.Pool/Mutex/RWMutex/Once (latent seams; no site today)"},
			"stubs":        "none",
			"not_modelled": []string{"garbage collector", "weak-memory reorderings and torn writes", "interleavings finer than yield granularity (straight-line code without call or loop)"},
		},
	}
	out := map[string]any{
		"property_id": d.prop,
		"tier":        d.tier,
		"seed":        d.seed,
		"level":       "exploration",
		"coverage":    cov,
		"assumptions": []string{
			"pristine references are computed by the same (instrumented) build in a fresh process with canonical map order; the fidelity self-test compares that build with the untouched tree",
			"map keys are integers, strings or structs of those (checked at run time; anything else aborts with a tool error)",
			"a clean batch is evidence, not proof: schedules and orders are sampled, not enumerated",
		},
		"wall_s":     e.wall,
		"violations": e.violations,
	}
	os.MkdirAll(filepath.Dir(path), 0o755)
	js, err := json.MarshalIndent(out, "", " ")
	if err != nil {
		return err
	}
	return os.WriteFile(path, js, 0o644)
}

var _ = sort.Strings
var _ = strings.Join
var _ = simrt.Mix
