package main

import (
	"bytes"
	"encoding/json"
	"fmt"
	"os"
	"os/exec"
	"strconv"
	"sync"
	"time"

	"github.com/gogpu/naga/zverif/proto"
	"github.com/gogpu/naga/zverif/simrt"
)

// Self-tests of the machinery itself (DESIGN.md §3.12). They are not
// registered checks; they are run during development and after every new
// seam or fault kind, and they never print VIOLATION lines.
//
//	determinism: the same scenario, executed by many fresh OS processes under
//	             GOMAXPROCS 1/4/16, must yield one event-log hash.
//	fidelity:    the instrumented build with the simulator idle (canonical map
//	             order, no scheduling) must return exactly what the UNTOUCHED
//	             tree returns (native twin worker), for every corpus shader
//	             and every operation kind.

func runWorkerEnv(bin string, sc *proto.Scenario, nSites int, env ...string) (*proto.Result, error) {
	in, _ := json.Marshal(sc)
	cmd := exec.Command(bin, "run", "-", strconv.Itoa(nSites))
	cmd.Env = append(cmd.Environ(), env...)
	cmd.Stdin = bytes.NewReader(in)
	var so, se bytes.Buffer
	cmd.Stdout, cmd.Stderr = &so, &se
	if err := cmd.Run(); err != nil {
		return nil, fmt.Errorf("%v: %s", err, firstLines(se.String(), 4))
	}
	results, _ := parseOutput(so.Bytes())
	if len(results) != 1 {
		return nil, fmt.Errorf("worker printed %d results", len(results))
	}
	return results[0], nil
}

func (d *driver) selftest(native string, which []string) int {
	want := map[string]bool{}
	for _, w := range which {
		want[w] = true
	}
	all := len(want) == 0
	rc := 0
	if all || want["determinism"] {
		if !d.selfDeterminism() {
			rc = 2
		}
	}
	if all || want["fidelity"] {
		if !d.selfFidelity(native) {
			rc = 2
		}
	}
	return rc
}

func (d *driver) selfDeterminism() bool {
	nScen := envInt("VERIF_SELF_SCENARIOS", 40)
	nProc := envInt("VERIF_SELF_PROCS", 30)
	start := time.Now()
	fmt.Printf("[selftest determinism] %d multi-task scenarios x %d fresh processes x GOMAXPROCS {1,4,16}\n", nScen, nProc)
	ok := true
	var steps, switches uint64
	picked := 0
	for i := 0; picked < nScen && i < 100000; i++ {
		sc := d.generate(i)
		if len(sc.Tasks) < 2 || sc.Sched.MeanQuantum == 0 {
			continue
		}
		picked++
		type out struct {
			hash string
			err  error
			res  *proto.Result
		}
		outs := make([]out, nProc)
		var wg sync.WaitGroup
		sem := make(chan struct{}, 16)
		for p := 0; p < nProc; p++ {
			wg.Add(1)
			go func(p int) {
				defer wg.Done()
				sem <- struct{}{}
				defer func() { <-sem }()
				gmp := []string{"1", "4", "16"}[p%3]
				res, err := runWorkerEnv(d.x.worker, sc, d.x.nSites, "GOMAXPROCS="+gmp)
				if err != nil {
					outs[p] = out{err: err}
					return
				}
				outs[p] = out{hash: res.LogHash, res: res}
			}(p)
		}
		wg.Wait()
		first := ""
		for p, o := range outs {
			if o.err != nil {
				fmt.Printf("  scenario %d process %d: %v\n", i, p, o.err)
				ok = false
				continue
			}
			if first == "" {
				first = o.hash
				steps += o.res.Stats.Steps
				switches += o.res.Stats.Switches
			} else if o.hash != first {
				fmt.Printf("  NONDETERMINISM: scenario %d (%s): process %d (GOMAXPROCS=%s) log %s != %s\n", i, sc.Label, p, []string{"1", "4", "16"}[p%3], o.hash, first)
				ok = false
			}
		}
	}
	fmt.Printf("[selftest determinism] %s: %d scenarios, %d processes, %d steps and %d pre-emptions per replica, %.1fs\n",
		map[bool]string{true: "OK (one event-log hash per scenario)", false: "FAILED"}[ok], picked, picked*nProc, steps, switches, time.Since(start).Seconds())
	return ok
}

func (d *driver) selfFidelity(native string) bool {
	if native == "" {
		fmt.Println("[selftest fidelity] skipped: no native worker")
		return true
	}
	start := time.Now()
	type job struct {
		p    *program
		kind string
	}
	var jobs []job
	kinds := append([]string{proto.OpSpirvB, proto.OpOneshot, proto.OpValidate}, backendKinds...)
	for _, p := range d.corpus.progs {
		for _, k := range kinds {
			jobs = append(jobs, job{p, k})
		}
	}
	fmt.Printf("[selftest fidelity] %d (program x operation) pairs: instrumented build with the simulator idle vs untouched tree\n", len(jobs))
	var mu sync.Mutex
	bad, done, bothDied := 0, 0, 0
	var wg sync.WaitGroup
	ch := make(chan job, len(jobs))
	for _, j := range jobs {
		ch <- j
	}
	close(ch)
	for w := 0; w < 16; w++ {
		wg.Add(1)
		go func() {
			defer wg.Done()
			for j := range ch {
				b := newBuilder(simrt.Mix(d.seed, 99), "fidelity")
				t := b.task()
				var last proto.Ref
				if j.kind == proto.OpOneshot {
					o := proto.OneshotOpts{Version: proto.Version{Major: 1, Minor: 3}, Validate: true}
					last = b.add(t, proto.Op{Kind: proto.OpOneshot, Src: b.source(j.p), Oneshot: &o})
				} else {
					m, _ := b.lower(t, j.p)
					switch j.kind {
					case proto.OpSpirvB:
						b.sc.Backends = []proto.SpirvOpts{spirvDefault()}
						last = b.add(t, proto.Op{Kind: proto.OpSpirvB, Mod: m})
					case proto.OpValidate:
						last = b.add(t, proto.Op{Kind: proto.OpValidate, Mod: m})
					default:
						last = b.add(t, b.backendOp(j.kind, m))
					}
				}
				b.sc.Sched.Explicit = []proto.Slice{}
				b.sc.Monitor = 0
				a, errA := runWorkerEnv(d.x.worker, b.sc, d.x.nSites)
				n, errN := runWorkerEnv(native, b.sc, d.x.nSites)
				mu.Lock()
				done++
				if errA != nil || errN != nil {
					// a process-level crash must at least be common to both
					if (errA == nil) != (errN == nil) {
						bad++
						fmt.Printf("  MISMATCH %s %s: instrumented err=%v native err=%v\n", j.p.Name, j.kind, errA, errN)
					} else {
						bothDied++
					}
					mu.Unlock()
					continue
				}
				x, y := a.Ops[last.Op], n.Ops[last.Op]
				if x.OK != y.OK || x.OutHash != y.OutHash || x.OutLen != y.OutLen || (x.Panic == "") != (y.Panic == "") || (isBackendKind(j.kind) && x.Info != y.Info) {
					bad++
					fmt.Printf("  MISMATCH %s %s: instrumented ok=%v out=%s len=%d, native ok=%v out=%s len=%d\n", j.p.Name, j.kind, x.OK, x.OutHash, x.OutLen, y.OK, y.OutHash, y.OutLen)
				}
				mu.Unlock()
			}
		}()
	}
	wg.Wait()
	fmt.Printf("[selftest fidelity] %s: %d pairs compared (%d of them: both builds die in the same place), %d mismatches, %.1fs\n", map[bool]string{true: "OK", false: "FAILED"}[bad == 0], done, bothDied, bad, time.Since(start).Seconds())
	if bad > 0 {
		fmt.Fprintln(os.Stderr, "TOOL-ERROR: the instrumented build does not behave like the untouched tree (or the tree is nondeterministic natively)")
	}
	return bad == 0
}
