package main

import (
	"encoding/json"
	"fmt"
	"os"
	"regexp"
	"sort"
	"strings"

	"github.com/gogpu/naga/zverif/fp"
	"github.com/gogpu/naga/zverif/proto"
)

// finding is one broken invariant / oracle mismatch, attributed to properties.
type finding struct {
	Props   []string `json:"properties"`
	Class   string   `json:"class"` // I-MUT I-OPT I-GLOBAL I-LIVE O-OUT O-ERR O-CRASH O-ALIAS O-TWIN
	Kind    string   `json:"culprit_kind"`
	Task    int      `json:"task"`
	Op      int      `json:"op"`
	Paths   []string `json:"paths,omitempty"` // normalised field paths (I-MUT, I-GLOBAL)
	Context string   `json:"context,omitempty"`
	Detail  string   `json:"detail"`
	// ConsequenceOf: this mismatch was observed on a module that an earlier
	// (or concurrent) operation had already altered; the I-MUT finding named
	// here is the root cause and is what gets reported.
	ConsequenceOf string `json:"consequence_of,omitempty"`
	rootIdx       int
}

func (f *finding) sig() string {
	return f.Class + "/" + f.Kind + "/" + f.Context + "/" + strings.Join(f.Paths, ",")
}

// sigClass is what a shrunk candidate must preserve.
func (f *finding) sigClass() string { return f.Class + "/" + f.Kind + "/" + f.Context }

func (f *finding) has(prop string) bool {
	for _, p := range f.Props {
		if p == prop {
			return true
		}
	}
	return false
}

func isBackendKind(k string) bool {
	switch k {
	case proto.OpSpirv, proto.OpSpirvB, proto.OpMSL, proto.OpGLSL, proto.OpHLSL, proto.OpDXIL:
		return true
	}
	return false
}

func hasConsts(op *proto.Op) bool {
	return (op.GLSL != nil && op.GLSL.HasConsts) || (op.MSL != nil && op.MSL.HasConsts)
}

// touchesResolution: the operation is a resolution, carries pipeline
// constants, or works on an object produced by a resolution.
func touchesResolution(sc *proto.Scenario, op *proto.Op) bool {
	if op.Kind == proto.OpResolve || op.Kind == proto.OpResolveInPlace || hasConsts(op) {
		return true
	}
	for ti := range sc.Tasks {
		for oi := range sc.Tasks[ti] {
			o := &sc.Tasks[ti][oi]
			if o.Kind == proto.OpResolveInPlace && o.Mod == op.Mod && usesMod(op.Kind) {
				return true
			}
		}
	}
	if op.Kind == proto.OpLower || op.Kind == proto.OpOneshot || op.Kind == proto.OpScribble {
		return false
	}
	for ti := range sc.Tasks {
		for oi := range sc.Tasks[ti] {
			o := &sc.Tasks[ti][oi]
			if o.Kind == proto.OpResolve && o.Dst == op.Mod {
				return true
			}
		}
	}
	return false
}

func normPaths(paths []string) []string {
	set := map[string]bool{}
	for _, p := range paths {
		set[fp.Normalise(p)] = true
	}
	out := make([]string, 0, len(set))
	for p := range set {
		out = append(out, p)
	}
	sort.Strings(out)
	return out
}

// expectErrOps recomputes, from the scenario alone, which operations must fail
// because a required override value is missing (needs override metadata).
type ovMeta map[string][]proto.OverrideInfo // source name -> overrides

func missingFor(ovs []proto.OverrideInfo, cs []proto.Const) bool {
	p := &program{}
	p.info.Overrides = ovs
	return missingRequired(p, cs)
}

// judge compares a scenario's result with pristine references and collects
// findings. refs[t][o] may be nil (no reference: scribble, or pristine crash).
func judge(sc *proto.Scenario, res *proto.Result, refs [][]*proto.OpResult, meta ovMeta) []finding {
	var out []finding
	add := func(f finding) { out = append(out, f) }

	for _, v := range res.Violations {
		op := &sc.Tasks[v.Task][v.Op]
		f := finding{Class: v.Class, Kind: v.Kind, Task: v.Task, Op: v.Op, Paths: normPaths(v.Paths), rootIdx: -1}
		f.Detail = fmt.Sprintf("%s altered by task %d op %d (%s) at step %d", v.Object, v.Task, v.Op, v.Kind, v.AtStep)
		if v.MidOp {
			f.Detail += " [observed while the operation was still running]"
		}
		if v.Healed {
			f.Detail += " [restored later: transient]"
		}
		if v.Detail != "" {
			f.Detail += ": " + v.Detail
		}
		switch v.Class {
		case "I-MUT":
			switch {
			case v.Kind == proto.OpResolveInPlace:
				f.Props = []string{"C14"}
				f.Context = "failed-resolution"
			case v.Kind == proto.OpResolve:
				f.Props = []string{"C14"}
				f.Context = "original"
			case hasConsts(op):
				f.Props = []string{"C12", "C14"}
				f.Context = "pipeline-constants"
			default:
				f.Props = []string{"C12"}
			}
		case "I-RACE":
			f.Props = []string{"C12"}
			f.Paths = nil
			if len(v.Paths) > 0 {
				f.Context = v.Paths[0] // the variable
			}
			f.Detail = v.Object + ": " + v.Detail
		default:
			f.Props = []string{"C12"}
			if touchesResolution(sc, op) {
				f.Props = []string{"C12", "C14"}
			}
		}
		add(f)
	}

	// taint: for every module object, the alterations seen on it: (global step
	// at which it was seen, index of the I-MUT finding, culprit operation).
	// Objects resolved from a tainted module after that point inherit it.
	type taintInfo struct {
		at      uint64
		root    int
		culprit proto.Ref
	}
	taint := map[int][]taintInfo{}
	for i, v := range res.Violations {
		if v.Class != "I-MUT" {
			continue
		}
		taint[v.ObjID] = append(taint[v.ObjID], taintInfo{v.AtStep, i, proto.Ref{Task: v.Task, Op: v.Op}})
	}
	for changed := true; changed; {
		changed = false
		for _, o := range res.Ops {
			op := &sc.Tasks[o.Task][o.Op]
			if (op.Kind != proto.OpResolve && op.Kind != proto.OpClone) || !o.Done {
				continue
			}
			for _, t := range taint[op.Mod] {
				if o.End < t.at {
					continue
				}
				dup := false
				for _, e := range taint[op.Dst] {
					if e.root == t.root {
						dup = true
					}
				}
				if !dup {
					taint[op.Dst] = append(taint[op.Dst], taintInfo{o.End, t.root, t.culprit})
					changed = true
				}
			}
		}
	}
	// rootFor: the earliest alteration of obj, by somebody other than (ti,oi),
	// seen no later than step end.
	rootFor := func(obj, ti, oi int, end uint64) int {
		best, bestAt := -1, uint64(0)
		for _, t := range taint[obj] {
			if t.at > end || (t.culprit.Task == ti && t.culprit.Op == oi) {
				continue
			}
			if best < 0 || t.at < bestAt {
				best, bestAt = t.root, t.at
			}
		}
		return best
	}

	if res.Crashed {
		// which operation killed the process is not known; what is known is
		// which ones were in flight
		f := finding{Props: []string{"C12", "C14"}, Class: "O-CRASH", Kind: "process", Task: -1, Op: -1, rootIdx: -1}
		var names []string
		for _, r := range res.InFlight {
			if r.Task >= len(sc.Tasks) || r.Op >= len(sc.Tasks[r.Task]) {
				continue
			}
			op := &sc.Tasks[r.Task][r.Op]
			names = append(names, fmt.Sprintf("task %d op %d (%s)", r.Task, r.Op, op.Kind))
			if usesMod(op.Kind) && f.ConsequenceOf == "" {
				if ri := rootFor(op.Mod, r.Task, r.Op, ^uint64(0)); ri >= 0 && ri < len(out) {
					f.ConsequenceOf = out[ri].sigClass()
					f.rootIdx = ri
				}
			}
		}
		f.Detail = "worker process died although every operation survives in a pristine process; in flight: " + strings.Join(names, ", ") + ": " + firstLines(res.CrashText, 6)
		add(f)
	}

	for ti := range sc.Tasks {
		for oi := range sc.Tasks[ti] {
			op := &sc.Tasks[ti][oi]
			var r *proto.OpResult
			for i := range res.Ops {
				if res.Ops[i].Task == ti && res.Ops[i].Op == oi {
					r = &res.Ops[i]
				}
			}
			if r == nil || op.Kind == proto.OpScribble {
				continue
			}
			props := []string{"C12"}
			if touchesResolution(sc, op) {
				props = []string{"C12", "C14"}
			}
			mk := func(class, detail string) finding {
				f := finding{Props: props, Class: class, Kind: op.Kind, Task: ti, Op: oi, Detail: detail, rootIdx: -1}
				if usesMod(op.Kind) {
					// the culprit operation's own output is judged on its own;
					// everybody else who read the altered module is a consequence
					if ri := rootFor(op.Mod, ti, oi, r.End); ri >= 0 && ri < len(out) {
						f.ConsequenceOf = out[ri].sigClass()
						f.rootIdx = ri
					}
				}
				return f
			}
			if !r.Done {
				if res.Deadlock {
					add(mk("I-LIVE", "scenario deadlocked: operation never ran although its dependency graph is acyclic"))
				}
				continue
			}
			ref := refs[ti][oi]
			if r.StepLimit {
				d := "operation exceeded its step budget: " + r.Err
				if ref != nil {
					d += fmt.Sprintf(" (pristine run needs %d steps)", ref.Steps)
				}
				add(mk("I-LIVE", d))
				continue
			}
			// C14 rule: a missing required value must be an error
			if op.Kind == proto.OpResolve || op.Kind == proto.OpResolveInPlace || hasConsts(op) {
				var cs []proto.Const
				switch {
				case op.Kind == proto.OpResolve || op.Kind == proto.OpResolveInPlace:
					cs = op.Consts
				case op.GLSL != nil:
					cs = op.GLSL.Consts
				case op.MSL != nil:
					cs = op.MSL.Consts
				}
				if src := sourceOf(sc, op.Mod); src >= 0 {
					// an empty map requests no resolution at all (MSL then emits
					// function constants); the rule applies to a non-empty map
					if ovs, ok := meta[sc.Sources[src].Name]; ok && len(cs) > 0 && missingFor(ovs, cs) && r.OK {
						f := mk("O-ERR", "a pipeline-constant map that omits an override without default was accepted without error")
						f.Props = []string{"C14"}
						f.Context = "missing-value"
						add(f)
					}
				}
			}
			if ref == nil {
				continue
			}
			if r.Panic != "" && ref.Panic == "" {
				add(mk("O-CRASH", "operation panicked here but not in a pristine process: "+firstLines(r.Panic, 4)))
				continue
			}
			if r.Panic != "" || ref.Panic != "" {
				if (r.Panic == "") != (ref.Panic == "") {
					add(mk("O-ERR", "pristine process panics on this operation, this history does not"))
				}
				continue
			}
			if r.OK != ref.OK {
				add(mk("O-ERR", fmt.Sprintf("success differs from pristine process: here ok=%v err=%q, pristine ok=%v err=%q", r.OK, r.Err, ref.OK, ref.Err)))
				continue
			}
			if !r.OK || !isBackendKind(op.Kind) && op.Kind != proto.OpOneshot {
				continue // error wording and IR shape are not part of the property
			}
			if r.OutHash != ref.OutHash || r.OutLen != ref.OutLen {
				add(mk("O-OUT", fmt.Sprintf("output differs from pristine process: here %s (%d bytes), pristine %s (%d bytes)", r.OutHash, r.OutLen, ref.OutHash, ref.OutLen)))
				continue
			}
			if r.Info != ref.Info {
				add(mk("O-OUT", fmt.Sprintf("reflection data differs from pristine process: here %.300s, pristine %.300s", r.Info, ref.Info)))
			}
		}
	}
	return out
}

func usesMod(kind string) bool {
	switch kind {
	case proto.OpLower, proto.OpOneshot, proto.OpScribble:
		return false
	}
	return true
}

func sourceOf(sc *proto.Scenario, obj int) int {
	for depth := 0; depth < 16; depth++ {
		found := false
		for ti := range sc.Tasks {
			for oi := range sc.Tasks[ti] {
				o := &sc.Tasks[ti][oi]
				if o.Dst == obj && o.Kind == proto.OpLower {
					return o.Src
				}
				if o.Dst == obj && (o.Kind == proto.OpResolve || o.Kind == proto.OpClone) {
					obj = o.Mod
					found = true
				}
			}
		}
		if !found {
			return -1
		}
	}
	return -1
}

// ---------------------------------------------------------------------------
// Known findings (committed file, never written at run time)
// ---------------------------------------------------------------------------

type knownFinding struct {
	Property string `json:"property"`
	Class    string `json:"class"`
	Kind     string `json:"culprit_kind"`
	Context  string `json:"context,omitempty"`
	// PathPatterns: regular expressions; every normalised path of the finding
	// must match at least one of them, otherwise it is a different violation.
	PathPatterns []string `json:"path_patterns,omitempty"`
	What         string   `json:"what"`
	res          []*regexp.Regexp
}

type knownFile struct {
	Findings []knownFinding `json:"findings"`
	Fixed    []string       `json:"fixed"`
}

func loadKnown(path string) (*knownFile, error) {
	k := &knownFile{}
	b, err := os.ReadFile(path)
	if err != nil {
		if os.IsNotExist(err) {
			return k, nil
		}
		return nil, err
	}
	if err := json.Unmarshal(b, k); err != nil {
		return nil, fmt.Errorf("%s: %v", path, err)
	}
	for i := range k.Findings {
		for _, p := range k.Findings[i].PathPatterns {
			re, err := regexp.Compile(p)
			if err != nil {
				return nil, fmt.Errorf("%s: bad pattern %q: %v", path, p, err)
			}
			k.Findings[i].res = append(k.Findings[i].res, re)
		}
	}
	return k, nil
}

func (k *knownFile) match(prop string, f *finding) *knownFinding {
	for i := range k.Findings {
		kf := &k.Findings[i]
		if kf.Property != prop || kf.Class != f.Class || kf.Kind != f.Kind || kf.Context != f.Context {
			continue
		}
		if len(kf.res) > 0 || len(f.Paths) > 0 {
			ok := true
			for _, p := range f.Paths {
				hit := false
				for _, re := range kf.res {
					if re.MatchString(p) {
						hit = true
					}
				}
				if !hit {
					ok = false
				}
			}
			if !ok {
				continue
			}
		}
		return kf
	}
	return nil
}

// twinDiff compares what two executions of one scenario returned to their
// callers (success, output bytes, reflection data, panic presence).
func twinDiff(a, b *proto.Result) string {
	if len(a.Ops) != len(b.Ops) {
		return fmt.Sprintf("different number of operation results: %d vs %d", len(a.Ops), len(b.Ops))
	}
	for i := range a.Ops {
		x, y := &a.Ops[i], &b.Ops[i]
		if x.Done != y.Done || x.OK != y.OK || x.OutHash != y.OutHash || x.OutLen != y.OutLen || (x.Panic == "") != (y.Panic == "") || x.StepLimit != y.StepLimit {
			return fmt.Sprintf("task %d op %d (%s): ok=%v out=%s len=%d vs ok=%v out=%s len=%d", x.Task, x.Op, x.Kind, x.OK, x.OutHash, x.OutLen, y.OK, y.OutHash, y.OutLen)
		}
		if isBackendKind(x.Kind) && x.Info != y.Info {
			return fmt.Sprintf("task %d op %d (%s): reflection data differs", x.Task, x.Op, x.Kind)
		}
	}
	return ""
}
