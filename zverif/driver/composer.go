package main

import (
	"fmt"
	"strings"

	"github.com/gogpu/naga/zverif/proto"
)

// Feature-swarm composer (DESIGN.md §3.6): assembles WGSL programs with 1-3
// entry points of mixed stages from a library of parameterised fragments, a
// random subset per program.  The aim is shapes the corpus has few of: two or
// more entries at each map-walking site (several bounds-checked buffers,
// several texture x sampler pairs, several wrapped div/mod helpers, many named
// lets), locals stored inside nested if/loop/switch, struct locals, helper call
// chains, overrides used in nested blocks, derived overrides, override-sized
// workgroups and global initialisers.
//
// A generated program enters the workload only if the compiler's own front end
// lowers it (checked by the worker's describe mode); its pristine references
// may be successes or deterministic failures, both are fine.

const (
	stVertex   = 1
	stFragment = 2
	stCompute  = 4
	stAny      = stVertex | stFragment | stCompute
)

type fragInst struct {
	globals string // module-scope declarations
	body    string // statements for an entry point body; may use acc (f32 var) and idx (u32 let)
	stages  int
}

type compCtx struct {
	taken   map[string]bool
	r       *rng
	binding [3]int
	n       int
	hasPush bool
	ovN     int
}

func (c *compCtx) bind() string {
	g := c.r.intn(3)
	b := c.binding[g]
	c.binding[g]++
	return fmt.Sprintf("@group(%d) @binding(%d)", g, b)
}

type fragGen func(c *compCtx, k int) fragInst

var fragLib = []fragGen{
	// 0: runtime-sized storage buffer, dynamic index, arrayLength
	func(c *compCtx, k int) fragInst {
		return fragInst{
			globals: fmt.Sprintf("%s var<storage, read_write> sbuf%d: array<f32>;\n", c.bind(), k),
			body:    fmt.Sprintf("sbuf%d[idx] = sbuf%d[idx + 1u] * 2.0 + f32(arrayLength(&sbuf%d));\nacc += sbuf%d[idx %% 7u];\n", k, k, k, k),
			stages:  stFragment | stCompute,
		}
	},
	// 1: uniform struct with vector, matrix and fixed array
	func(c *compCtx, k int) fragInst {
		return fragInst{
			globals: fmt.Sprintf("struct U%d { a: vec4<f32>, m: mat4x4<f32>, c: array<vec4<f32>, 4>, n: mat2x2<f32> }\n%s var<uniform> ub%d: U%d;\n", k, c.bind(), k, k),
			body:    fmt.Sprintf("acc += ub%d.a.x + ub%d.c[idx %% 4u].y + (ub%d.m * ub%d.a).z + ub%d.n[1].x;\n", k, k, k, k, k),
			stages:  stAny,
		}
	},
	// 2: two textures, one sampler (several combined samplers in GLSL)
	func(c *compCtx, k int) fragInst {
		return fragInst{
			globals: fmt.Sprintf("%s var texA%d: texture_2d<f32>;\n%s var texB%d: texture_2d<f32>;\n%s var smp%d: sampler;\n", c.bind(), k, c.bind(), k, c.bind(), k),
			body: fmt.Sprintf("acc += textureSampleLevel(texA%d, smp%d, vec2<f32>(0.25, 0.5), 0.0).x;\nacc += textureSampleLevel(texB%d, smp%d, vec2<f32>(acc, 0.5), 1.0).y;\nacc += f32(textureDimensions(texA%d).x) + f32(textureNumLevels(texB%d));\n",
				k, k, k, k, k, k),
			stages: stAny,
		}
	},
	// 3: implicit-derivative sampling + second sampler (fragment only)
	func(c *compCtx, k int) fragInst {
		return fragInst{
			globals: fmt.Sprintf("%s var texC%d: texture_2d<f32>;\n%s var smpA%d: sampler;\n%s var smpB%d: sampler;\n", c.bind(), k, c.bind(), k, c.bind(), k),
			body:    fmt.Sprintf("acc += textureSample(texC%d, smpA%d, vec2<f32>(acc, 0.5)).x + textureSample(texC%d, smpB%d, vec2<f32>(0.5, acc)).y + dpdx(acc);\n", k, k, k, k),
			stages:  stFragment,
		}
	},
	// 4: storage texture write + textureLoad
	func(c *compCtx, k int) fragInst {
		return fragInst{
			globals: fmt.Sprintf("%s var stex%d: texture_storage_2d<rgba8unorm, write>;\n%s var ltex%d: texture_2d<u32>;\n", c.bind(), k, c.bind(), k),
			body:    fmt.Sprintf("textureStore(stex%d, vec2<i32>(i32(idx), 2), vec4<f32>(acc));\nacc += f32(textureLoad(ltex%d, vec2<i32>(1, i32(idx)), 0).x);\n", k, k),
			stages:  stFragment | stCompute,
		}
	},
	// 5: integer division / remainder in several types (wrapped helpers)
	func(c *compCtx, k int) fragInst {
		return fragInst{
			body: fmt.Sprintf("let qi%d = i32(idx) / (i32(idx) - 3);\nlet ri%d = i32(idx) %% (qi%d + 1);\nlet qu%d = idx / (idx + 1u);\nlet ru%d = idx %% 5u;\nlet qv%d = vec2<i32>(qi%d, ri%d) / vec2<i32>(2, ri%d);\nlet rv%d = vec3<u32>(qu%d, ru%d, idx) %% vec3<u32>(3u, 4u, ru%d + 1u);\nacc += f32(qi%d + ri%d + qv%d.x) + f32(qu%d + ru%d + rv%d.z) + f32(-qi%d) + f32(abs(ri%d));\n",
				k, k, k, k, k, k, k, k, k, k, k, k, k, k, k, k, k, k, k, k, k),
			stages: stAny,
		}
	},
	// 6: local variable stored inside nested if / loop / switch
	func(c *compCtx, k int) fragInst {
		return fragInst{
			body: fmt.Sprintf("var tmp%d: f32 = 0.0;\nfor (var i%d = 0u; i%d < 4u; i%d++) {\n  if (i%d == idx) { tmp%d += 1.0; } else { tmp%d *= 0.5; }\n}\nswitch (idx) {\n  case 0u: { tmp%d = 1.0; }\n  case 1u, 2u: { tmp%d = 2.0; }\n  default: { tmp%d += 3.0; }\n}\nacc += tmp%d;\n",
				k, k, k, k, k, k, k, k, k, k, k),
			stages: stAny,
		}
	},
	// 7: struct local with array member, dynamic index
	func(c *compCtx, k int) fragInst {
		return fragInst{
			globals: fmt.Sprintf("struct SL%d { a: f32, b: array<f32, 2>, c: vec3<f32> }\n", k),
			body:    fmt.Sprintf("var sl%d: SL%d;\nsl%d.a = acc;\nsl%d.b[1] = 2.0;\nsl%d.c = vec3<f32>(acc, 1.0, 2.0);\nacc += sl%d.b[idx %% 2u] + sl%d.c.z;\n", k, k, k, k, k, k, k),
			stages:  stAny,
		}
	},
	// 8: helper call chain
	func(c *compCtx, k int) fragInst {
		return fragInst{
			globals: fmt.Sprintf("fn hA%d(x: f32) -> f32 { return x * 2.0; }\nfn hB%d(x: f32, n: u32) -> f32 {\n  var r = hA%d(x);\n  if (n > 2u) { r = r + hA%d(r); }\n  return r + 1.0;\n}\n", k, k, k, k),
			body:    fmt.Sprintf("acc += hB%d(acc, idx);\n", k),
			stages:  stAny,
		}
	},
	// 9: helper taking a pointer
	func(c *compCtx, k int) fragInst {
		return fragInst{
			globals: fmt.Sprintf("fn hP%d(p: ptr<function, f32>, v: f32) { *p = *p + v; }\n", k),
			body:    fmt.Sprintf("hP%d(&acc, 0.5);\n", k),
			stages:  stAny,
		}
	},
	// 10: workgroup memory, atomics, barrier (compute only)
	func(c *compCtx, k int) fragInst {
		return fragInst{
			globals: fmt.Sprintf("var<workgroup> wg%d: array<atomic<u32>, 4>;\nvar<workgroup> wf%d: array<f32, 8>;\n", k, k),
			body:    fmt.Sprintf("atomicAdd(&wg%d[idx %% 4u], 1u);\nwf%d[idx %% 8u] = acc;\nworkgroupBarrier();\nacc += f32(atomicLoad(&wg%d[0])) + wf%d[(idx + 1u) %% 8u];\n", k, k, k, k),
			stages:  stCompute,
		}
	},
	// 11: private globals with initialisers
	func(c *compCtx, k int) fragInst {
		return fragInst{
			globals: fmt.Sprintf("var<private> pv%d: f32 = 1.5;\nvar<private> pa%d: array<i32, 3> = array<i32, 3>(1, 2, 3);\n", k, k),
			body:    fmt.Sprintf("pv%d = pv%d + acc;\nacc += pv%d + f32(pa%d[idx %% 3u]);\n", k, k, k, k),
			stages:  stAny,
		}
	},
	// 12: many named lets
	func(c *compCtx, k int) fragInst {
		var b strings.Builder
		prev := "acc"
		for i := 0; i < 5; i++ {
			fmt.Fprintf(&b, "let n%d_%d = %s * %d.0 + 1.0;\n", k, i, prev, i+2)
			prev = fmt.Sprintf("n%d_%d", k, i)
		}
		fmt.Fprintf(&b, "acc += %s;\n", prev)
		return fragInst{body: b.String(), stages: stAny}
	},
	// 13: math builtins with helper functions in some back ends
	func(c *compCtx, k int) fragInst {
		return fragInst{
			body: fmt.Sprintf("let mf%d = modf(acc + 1.5);\nlet fr%d = frexp(acc + 3.0);\nlet eb%d = extractBits(idx, 3u, 4u);\nlet ib%d = insertBits(idx, 5u, 1u, 3u);\nlet ci%d = i32(acc * 100.0);\nlet cu%d = u32(acc + 7.0);\nacc += mf%d.fract + mf%d.whole + fr%d.fract + f32(fr%d.exp) + f32(eb%d + ib%d) + f32(ci%d) + f32(cu%d) + f32(countOneBits(idx)) + f32(firstLeadingBit(ci%d));\n",
				k, k, k, k, k, k, k, k, k, k, k, k, k, k, k),
			stages: stAny,
		}
	},
	// 14: storage atomics incl. compare-exchange
	func(c *compCtx, k int) fragInst {
		return fragInst{
			globals: fmt.Sprintf("%s var<storage, read_write> at%d: atomic<i32>;\n%s var<storage, read_write> au%d: array<atomic<u32>, 4>;\n", c.bind(), k, c.bind(), k),
			body:    fmt.Sprintf("let old%d = atomicMax(&at%d, i32(idx));\nlet cx%d = atomicCompareExchangeWeak(&au%d[idx %% 4u], 1u, idx);\nif (cx%d.exchanged) { acc += f32(old%d) + f32(cx%d.old_value); }\n", k, k, k, k, k, k, k),
			stages:  stFragment | stCompute,
		}
	},
	// 15: const array, dynamic index, while loop with continuing
	func(c *compCtx, k int) fragInst {
		return fragInst{
			globals: fmt.Sprintf("const CA%d = array<f32, 3>(1.0, 2.5, 4.0);\nconst CK%d: u32 = 3u;\n", k, k),
			body:    fmt.Sprintf("var w%d = 0u;\nloop {\n  if (w%d >= CK%d) { break; }\n  var ca%d = CA%d;\n  acc += ca%d[w%d];\n  continuing { w%d += 1u; }\n}\n", k, k, k, k, k, k, k, k),
			stages:  stAny,
		}
	},
	// 16: read-only storage struct with nested array of structs
	func(c *compCtx, k int) fragInst {
		return fragInst{
			globals: fmt.Sprintf("struct Item%d { pos: vec3<f32>, w: f32 }\nstruct Items%d { count: u32, items: array<Item%d> }\n%s var<storage, read> ro%d: Items%d;\n", k, k, k, c.bind(), k, k),
			body:    fmt.Sprintf("if (idx < ro%d.count) { acc += ro%d.items[idx].w + ro%d.items[idx].pos.y; }\n", k, k, k),
			stages:  stAny,
		}
	},
	// 17: depth texture + comparison sampler
	func(c *compCtx, k int) fragInst {
		return fragInst{
			globals: fmt.Sprintf("%s var dtex%d: texture_depth_2d;\n%s var csmp%d: sampler_comparison;\n", c.bind(), k, c.bind(), k),
			body:    fmt.Sprintf("acc += textureSampleCompareLevel(dtex%d, csmp%d, vec2<f32>(0.5, 0.5), 0.5);\n", k, k),
			stages:  stAny,
		}
	},
	// 18: vector/matrix math, select, swizzles
	func(c *compCtx, k int) fragInst {
		return fragInst{
			body: fmt.Sprintf("let v%d = vec3<f32>(acc, 1.0, f32(idx));\nlet m%d = mat3x3<f32>(v%d, v%d.zyx, vec3<f32>(1.0));\nlet sv%d = select(v%d, (m%d * v%d).yzx, vec3<bool>(idx > 1u, true, false));\nacc += dot(sv%d, cross(v%d, sv%d)) + length(sv%d.xy) + clamp(acc, 0.0, 1.0);\n",
				k, k, k, k, k, k, k, k, k, k, k, k),
			stages: stAny,
		}
	},
	// 19: single-channel storage textures of several scalar kinds, read access
	func(c *compCtx, k int) fragInst {
		return fragInst{
			globals: fmt.Sprintf("%s var rtf%d: texture_storage_2d<r32float, read>;\n%s var rtu%d: texture_storage_2d<r32uint, read>;\n%s var rti%d: texture_storage_2d<r32sint, read>;\n", c.bind(), k, c.bind(), k, c.bind(), k),
			body:    fmt.Sprintf("acc += textureLoad(rtf%d, vec2<u32>(idx, 1u)).x + f32(textureLoad(rtu%d, vec2<u32>(idx, 2u)).x) + f32(textureLoad(rti%d, vec2<u32>(1u, idx)).x);\n", k, k, k),
			stages:  stFragment | stCompute,
		}
	},
	// 20: deep call chain whose leaf writes a storage global; a second chain reads it
	func(c *compCtx, k int) fragInst {
		return fragInst{
			globals: fmt.Sprintf("struct Dat%d { values: array<u32, 16> }\n%s var<storage, read_write> dat%d: Dat%d;\n"+
				"fn wl0_%d(i: u32) { dat%d.values[i %% 16u] = dat%d.values[i %% 16u] + 1u; }\nfn wl1_%d(i: u32) { wl0_%d(i); }\nfn wl2_%d(i: u32) { wl1_%d(i + 1u); }\nfn wl3_%d(i: u32) { wl2_%d(i); }\n"+
				"fn rl0_%d(i: u32) -> u32 { return dat%d.values[i %% 16u]; }\nfn rl1_%d(i: u32) -> u32 { return rl0_%d(i) + 1u; }\nfn rl2_%d(i: u32) -> u32 { return rl1_%d(i) * 2u; }\n",
				k, c.bind(), k, k, k, k, k, k, k, k, k, k, k, k, k, k, k, k, k),
			body:   fmt.Sprintf("wl3_%d(idx);\nacc += f32(rl2_%d(idx));\n", k, k),
			stages: stFragment | stCompute,
		}
	},
	// 21: struct values built with constructors, returned from helpers
	func(c *compCtx, k int) fragInst {
		return fragInst{
			globals: fmt.Sprintf("struct PA%d { p: vec2<f32>, w: f32 }\nstruct PB%d { a: PA%d, n: u32 }\nfn mkA%d(x: f32) -> PA%d { return PA%d(vec2<f32>(x, x * 2.0), x + 1.0); }\nfn mkB%d(x: f32, n: u32) -> PB%d { return PB%d(mkA%d(x), n); }\n",
				k, k, k, k, k, k, k, k, k, k),
			body:   fmt.Sprintf("let pb%d = mkB%d(acc, idx);\nlet pa%d = PA%d(pb%d.a.p.yx, f32(pb%d.n));\nacc += pa%d.w + pa%d.p.x;\n", k, k, k, k, k, k, k, k),
			stages: stAny,
		}
	},
	// 22: two side-effecting helpers (kept as real functions by inlining policies)
	func(c *compCtx, k int) fragInst {
		return fragInst{
			globals: fmt.Sprintf("%s var<storage, read_write> se%d: array<vec4<f32>>;\nfn seA%d(i: u32, v: f32) { if (i < 8u) { se%d[i] = vec4<f32>(v); } }\nfn seB%d(i: u32, v: f32) { for (var q = 0u; q < 2u; q++) { se%d[i + q].x += v; } }\n", c.bind(), k, k, k, k, k),
			body:    fmt.Sprintf("seA%d(idx, acc);\nseB%d(idx, acc * 0.5);\n", k, k),
			stages:  stFragment | stCompute,
		}
	},
	// 23: texture arrays, cube, multisampled and 3d queries
	func(c *compCtx, k int) fragInst {
		return fragInst{
			globals: fmt.Sprintf("%s var ta%d: texture_2d_array<f32>;\n%s var tc%d: texture_cube<f32>;\n%s var tm%d: texture_multisampled_2d<f32>;\n%s var t3%d: texture_3d<f32>;\n%s var smq%d: sampler;\n", c.bind(), k, c.bind(), k, c.bind(), k, c.bind(), k, c.bind(), k),
			body: fmt.Sprintf("acc += textureSampleLevel(ta%d, smq%d, vec2<f32>(0.5), i32(idx %% 2u), 0.0).x + textureSampleLevel(tc%d, smq%d, vec3<f32>(acc, 1.0, 0.0), 0.0).y;\nacc += textureLoad(tm%d, vec2<i32>(1, 1), i32(idx %% 4u)).z + f32(textureNumLayers(ta%d) + textureNumSamples(tm%d)) + f32(textureDimensions(t3%d).z);\n",
				k, k, k, k, k, k, k, k),
			stages: stAny,
		}
	},
	// 24: helpers taking texture and sampler parameters followed by more arguments
	func(c *compCtx, k int) fragInst {
		return fragInst{
			globals: fmt.Sprintf("%s var ptx%d: texture_2d<f32>;\n%s var psm%d: sampler;\nfn sampleAt%d(t: texture_2d<f32>, s: sampler, uv: vec2<f32>, lod: f32) -> vec4<f32> { return textureSampleLevel(t, s, uv, lod); }\nfn sampleTwice%d(s: sampler, t: texture_2d<f32>, uv: vec2<f32>) -> f32 { return sampleAt%d(t, s, uv, 0.0).x + sampleAt%d(t, s, uv.yx, 1.0).y; }\n",
				c.bind(), k, c.bind(), k, k, k, k, k),
			body:   fmt.Sprintf("acc += sampleTwice%d(psm%d, ptx%d, vec2<f32>(acc, 0.25));\n", k, k, k),
			stages: stAny,
		}
	},
	// 25: depth textures sampled, gathered and loaded WITHOUT comparison
	func(c *compCtx, k int) fragInst {
		return fragInst{
			globals: fmt.Sprintf("%s var dpt%d: texture_depth_2d;\n%s var dpa%d: texture_depth_2d_array;\n%s var dps%d: sampler;\n", c.bind(), k, c.bind(), k, c.bind(), k),
			body: fmt.Sprintf("acc += textureSampleLevel(dpt%d, dps%d, vec2<f32>(0.5, acc), 0) + textureLoad(dpt%d, vec2<i32>(1, 2), 0) + textureGather(dpa%d, dps%d, vec2<f32>(0.5), i32(idx %% 2u)).x;\n",
				k, k, k, k, k),
			stages: stAny,
		}
	},
	// 26: several scalar helpers with control flow (kept as real functions)
	func(c *compCtx, k int) fragInst {
		return fragInst{
			globals: fmt.Sprintf("fn cfA%d(x: f32, n: u32) -> f32 { var r = x; for (var i = 0u; i < n; i++) { r = r * 1.5 + 1.0; } return r; }\nfn cfB%d(x: f32) -> f32 { if (x > 2.0) { return x - 2.0; } return x + 2.0; }\nfn cfC%d(a: u32, b: u32) -> u32 { var m = a; loop { if (m < b) { break; } m = m - b; } return m; }\n", k, k, k),
			body:    fmt.Sprintf("acc += cfA%d(acc, idx %% 3u) + cfB%d(acc) + f32(cfC%d(idx + 7u, 3u));\n", k, k, k),
			stages:  stAny,
		}
	},
	// 27: module-scope names from a small vocabulary shared by ALL programs,
	// declared here as const / private var (other programs declare the same
	// names as overrides): name tables must not leak between compilations
	func(c *compCtx, k int) fragInst {
		a, b := vocab[c.r.intn(len(vocab))], vocab[c.r.intn(len(vocab))]
		if a == b || c.taken[a] || c.taken[b] {
			return fragInst{stages: stAny}
		}
		c.taken[a], c.taken[b] = true, true
		return fragInst{
			globals: fmt.Sprintf("const %s: f32 = 0.125;\nvar<private> %s: f32 = 3.0;\n", a, b),
			body:    fmt.Sprintf("%s = %s + %s;\nacc += %s * %s;\n", b, b, a, b, a),
			stages:  stAny,
		}
	},
	// 28: whole-array load from workgroup memory (SPIR-V needs OpCopyLogical,
	// i.e. raises the module version) - in a program with overrides the SPIR-V
	// compile then FAILS after that point: state set before a failure
	func(c *compCtx, k int) fragInst {
		return fragInst{
			globals: fmt.Sprintf("var<workgroup> wwa%d: array<u32, 8>;\nstruct WS%d { a: array<f32, 4>, n: u32 }\nvar<workgroup> wws%d: WS%d;\n", k, k, k, k),
			body:    fmt.Sprintf("wwa%d[idx %% 8u] = idx;\nworkgroupBarrier();\nlet wcopy%d = wwa%d;\nvar wsc%d = wws%d;\nacc += f32(wcopy%d[(idx + 1u) %% 8u]) + wsc%d.a[idx %% 4u];\n", k, k, k, k, k, k, k),
			stages:  stCompute,
		}
	},
	// 29: user identifiers spelled like the helper names back ends generate
	func(c *compCtx, k int) fragInst {
		names := []string{"naga_mod", "naga_div", "naga_abs", "naga_neg", "naga_f2i32", "naga_modf", "naga_frexp", "naga_extractBits", "naga_insertBits", "naga_dot"}
		a, b := names[c.r.intn(len(names))], names[c.r.intn(len(names))]
		if a == b || c.taken[a] || c.taken[b] {
			return fragInst{stages: stAny}
		}
		c.taken[a], c.taken[b] = true, true
		return fragInst{
			globals: fmt.Sprintf("fn %s(x: f32) -> f32 { return x * 0.5; }\nvar<private> %s: i32 = 3;\n", a, b),
			body:    fmt.Sprintf("acc += %s(acc) + f32(%s / (i32(idx) - 2)) + f32(abs(%s) %% 3) + f32(-%s);\n", a, b, b, b),
			stages:  stAny,
		}
	},
	// 30: a very long identifier (length limits, hashing or truncation of names)
	func(c *compCtx, k int) fragInst {
		long := "very_long_identifier_" + strings.Repeat("abcdefghij", 115) + fmt.Sprint(k)
		return fragInst{
			body:   fmt.Sprintf("let %s = acc * 1.5 + 2.0;\nacc += %s;\n", long, long),
			stages: stAny,
		}
	},
	// 31: several scalar locals assigned in BOTH branches of an if and in switch
	// cases, and two small struct locals (phi placement / scalar replacement
	// passes walk sets of such variables)
	func(c *compCtx, k int) fragInst {
		return fragInst{
			globals: fmt.Sprintf("struct PS%d { x: f32, y: f32, n: u32 }\n", k),
			body: fmt.Sprintf("var pa%d: f32 = 1.0;\nvar pb%d: f32 = 2.0;\nvar pc%d: u32 = 7u;\nif (idx > 1u) { pa%d = 3.0; pb%d = acc; pc%d = pc%d + 1u; } else { pa%d = acc; pb%d = 6.0; pc%d = pc%d * 3u; }\n"+
				"switch (idx %% 3u) {\n  case 0u: { pa%d = pa%d + 1.0; pb%d = pb%d * 2.0; }\n  case 1u: { pa%d = pa%d * 2.0; pc%d = pc%d + 2u; }\n  default: { pb%d = pb%d - 1.0; pc%d = pc%d + 5u; }\n}\n"+
				"var ps%d: PS%d;\nvar pt%d: PS%d;\nps%d.x = pa%d; ps%d.y = pb%d; ps%d.n = pc%d;\npt%d.x = ps%d.y; pt%d.y = 4.0; pt%d.n = ps%d.n + 1u;\nacc += pa%d + pb%d + f32(pc%d) + ps%d.x + pt%d.x + f32(pt%d.n);\n",
				k, k, k, k, k, k, k, k, k, k, k,
				k, k, k, k, k, k, k, k, k, k, k, k,
				k, k, k, k, k, k, k, k, k, k, k, k, k, k, k, k, k, k, k, k, k),
			stages: stAny,
		}
	},
	// 32: several UNUSED lets that alias one expression (named-expression tables
	// keyed by the shared handle)
	func(c *compCtx, k int) fragInst {
		return fragInst{
			body:   fmt.Sprintf("let ua%d = acc * 2.0 + f32(idx);\nlet ub%d = ua%d;\nlet uc%d = ua%d;\nlet ud%d = ua%d;\nlet ue%d = acc;\nlet uf%d = acc;\n", k, k, k, k, k, k, k, k, k),
			stages: stAny,
		}
	},
	// 33: one sampler paired with several textures AND with an element of a
	// binding array of textures
	func(c *compCtx, k int) fragInst {
		return fragInst{
			globals: fmt.Sprintf("%s var bt1_%d: texture_2d<f32>;\n%s var bt2_%d: texture_2d<f32>;\n%s var bt3_%d: texture_2d<f32>;\n%s var bsm%d: sampler;\n%s var btarr%d: binding_array<texture_2d<f32>, 4>;\n",
				c.bind(), k, c.bind(), k, c.bind(), k, c.bind(), k, c.bind(), k),
			body: fmt.Sprintf("acc += textureSampleLevel(bt1_%d, bsm%d, vec2<f32>(0.5), 0.0).x + textureSampleLevel(bt2_%d, bsm%d, vec2<f32>(acc), 0.0).y + textureSampleLevel(bt3_%d, bsm%d, vec2<f32>(0.25), 0.0).z + textureSampleLevel(btarr%d[1], bsm%d, vec2<f32>(0.75), 0.0).w;\n",
				k, k, k, k, k, k, k, k),
			stages: stAny,
		}
	},
}

// vocab: identifiers used as overrides by some programs and as constants or
// variables by others.
var vocab = []string{"scale", "gain", "depth", "width", "bias_v", "o", "height"}

// push constants (at most one per module)
func fragPush(c *compCtx, k int) fragInst {
	return fragInst{
		globals: "struct PC { scale: f32, bias: f32 }\nvar<immediate> pc: PC;\n",
		body:    "acc = acc * pc.scale + pc.bias;\n",
		stages:  stAny,
	}
}

// override fragments. nested=false keeps uses in flat code (no nested block,
// no pointer-held handle statements).
func fragOverride(c *compCtx, k int, nested bool) fragInst {
	var g, b strings.Builder
	id := 100 + c.ovN*7
	c.ovN++
	switch c.r.intn(4) {
	case 0:
		fmt.Fprintf(&g, "@id(%d) override ovf%d: f32 = 1.25;\n", id, k)
	case 1:
		fmt.Fprintf(&g, "override ovf%d: f32;\n", k) // required
	case 2:
		fmt.Fprintf(&g, "@id(%d) override ovf%d: f32;\n", id, k) // required, by id
	case 3:
		fmt.Fprintf(&g, "override ovf%d = 2.5;\n", k)
	}
	if v := vocab[c.r.intn(len(vocab))]; !c.taken[v] && c.r.chance(0.6) {
		c.taken[v] = true
		fmt.Fprintf(&g, "override %s: f32 = 4.0;\n", v)
		fmt.Fprintf(&b, "acc += %s;\n", v)
	}
	fmt.Fprintf(&g, "override ovu%d: u32 = %du;\n", k, 2+c.r.intn(3))
	fmt.Fprintf(&g, "override ovb%d: bool = true;\n", k)
	fmt.Fprintf(&g, "override ovd%d = ovf%d * 2.0;\n", k, k) // derived
	if c.r.chance(0.5) {
		fmt.Fprintf(&g, "var<private> gi%d: f32 = ovf%d * 10.0;\n", k, k)
		fmt.Fprintf(&b, "acc += gi%d;\n", k)
	}
	if c.r.chance(0.5) {
		// a module-scope variable initialised by a BARE override of its own type
		fmt.Fprintf(&g, "var<private> gb%d: f32 = ovf%d;\nvar<private> gu%d: u32 = ovu%d;\n", k, k, k, k)
		fmt.Fprintf(&b, "acc += gb%d + f32(gu%d);\n", k, k)
	}
	if nested {
		fmt.Fprintf(&b, "if (ovb%d) {\n  for (var j%d = 0u; j%d < ovu%d; j%d++) {\n    acc += ovf%d * f32(j%d);\n    if (acc > ovd%d) { break; }\n  }\n} else {\n  acc -= ovd%d;\n}\n", k, k, k, k, k, k, k, k, k)
	} else {
		fmt.Fprintf(&b, "acc += ovf%d + ovd%d + f32(ovu%d) + select(0.0, 1.0, ovb%d);\n", k, k, k, k)
	}
	return fragInst{globals: g.String(), body: b.String(), stages: stAny}
}

// composeProgram builds one program. withOverrides: 0 none, 1 flat uses only, 2 nested uses.
func composeProgram(r *rng, name string, withOverrides int) proto.Source {
	c := &compCtx{r: r, taken: map[string]bool{}}
	// instantiate a random subset of fragments
	var frags []fragInst
	nf := 3 + r.intn(6)
	k := 0
	for i := 0; i < nf; i++ {
		frags = append(frags, fragLib[r.intn(len(fragLib))](c, k))
		k++
	}
	// doubling: two or three instances of ONE fragment kind, so that tables
	// keyed by that feature hold several entries within one entry point
	forced := map[int]bool{}
	if r.chance(0.6) {
		kind := r.intn(len(fragLib))
		for i := 0; i < 2+r.intn(2); i++ {
			forced[len(frags)] = true
			frags = append(frags, fragLib[kind](c, k))
			k++
		}
	}
	if r.chance(0.3) {
		frags = append(frags, fragPush(c, k))
		k++
	}
	for i := 0; withOverrides > 0 && i < 1+r.intn(2); i++ {
		frags = append(frags, fragOverride(c, k, withOverrides == 2))
		k++
	}
	var src strings.Builder
	for _, f := range frags {
		src.WriteString(f.globals)
	}
	// output sink so that results are observable
	fmt.Fprintf(&src, "%s var<storage, read_write> sink: array<f32>;\n", c.bind())
	src.WriteString("struct VOut { @builtin(position) pos: vec4<f32>, @location(0) uv: vec2<f32>, @location(1) @interpolate(flat) id: u32 }\n")
	nEP := 1 + r.intn(3)
	stages := []int{stCompute, stVertex, stFragment}
	wgOverride := ""
	if withOverrides > 0 && r.chance(0.5) {
		src.WriteString("override wgx: u32 = 8u;\n")
		wgOverride = "wgx"
	}
	var lateConsts strings.Builder
	// sometimes the entry points are called `main` and `main_`: a WGSL name that
	// equals the name a back end generates for another entry point
	specialNames := r.chance(0.15)
	epName := func(prefix string, e int) string {
		if specialNames && e == 0 {
			return "main"
		}
		if specialNames && e == 1 {
			return "main_"
		}
		return fmt.Sprintf("%s_%d", prefix, e)
	}
	for e := 0; e < nEP; e++ {
		st := stages[r.intn(len(stages))]
		if e == 0 && len(forced) > 0 {
			// a stage that accepts the doubled fragments
			for fi := range frags {
				if forced[fi] && frags[fi].stages&st == 0 {
					st = stCompute
				}
			}
		}
		var body strings.Builder
		used := 0
		for fi, f := range frags {
			if f.stages&st != 0 && f.body != "" && (r.chance(0.6) || used == 0 || (forced[fi] && e == 0)) {
				body.WriteString(f.body)
				used++
			}
		}
		ind := func(s string) string {
			return "  " + strings.ReplaceAll(strings.TrimRight(s, "\n"), "\n", "\n  ") + "\n"
		}
		switch st {
		case stCompute:
			wg := "64"
			if wgOverride != "" {
				wg = wgOverride
			} else if r.chance(0.3) {
				wg = "8, 4, 2"
			} else if r.chance(0.4) {
				// attribute arguments naming constants declared LATER in the file
				wg = fmt.Sprintf("WGX_%d, WGY_%d, WGZ_%d", e, e, e)
				fmt.Fprintf(&lateConsts, "const WGZ_%d: u32 = 1u;\nconst WGX_%d: u32 = 4u;\nconst WGY_%d: u32 = 2u;\n", e, e, e)
			}
			fmt.Fprintf(&src, "@compute @workgroup_size(%s)\nfn %s(@builtin(global_invocation_id) gid: vec3<u32>, @builtin(local_invocation_index) lid: u32) {\n  var acc: f32 = f32(lid);\n  let idx = gid.x;\n%s  sink[idx] = acc;\n}\n", wg, epName("cs", e), ind(body.String()))
		case stVertex:
			fmt.Fprintf(&src, "@vertex\nfn %s(@builtin(vertex_index) vi: u32, @location(0) pos: vec3<f32>, @location(1) uv: vec2<f32>) -> VOut {\n  var acc: f32 = pos.x;\n  let idx = vi;\n%s  var o: VOut;\n  o.pos = vec4<f32>(pos * acc, 1.0);\n  o.uv = uv + vec2<f32>(acc);\n  o.id = idx;\n  return o;\n}\n", epName("vs", e), ind(body.String()))
		case stFragment:
			fmt.Fprintf(&src, "@fragment\nfn %s(in: VOut) -> @location(0) vec4<f32> {\n  var acc: f32 = in.uv.x;\n  let idx = in.id;\n%s  return vec4<f32>(acc, in.uv, 1.0);\n}\n", epName("fs", e), ind(body.String()))
		}
	}
	src.WriteString(lateConsts.String())
	return proto.Source{Name: name, WGSL: src.String()}
}

// composerPrograms returns the generated part of the workload for this seed.
func composerPrograms(seed uint64) []proto.Source {
	n := envInt("VERIF_COMPOSED", 96)
	var out []proto.Source
	for i := 0; i < n; i++ {
		r := newRng(seed, 0xC0DE0000+uint64(i))
		mode := 0
		switch {
		case i%4 == 1:
			mode = 1
		case i%4 == 3:
			mode = 2
		}
		out = append(out, composeProgram(r, fmt.Sprintf("composed-%d-s%d-m%d", i, seed, mode), mode))
	}
	return out
}
