package main

import "github.com/gogpu/naga/zverif/proto"

// composerPrograms returns generated WGSL programs (feature swarm); see
// composer_gen.go.  Placeholder until the composer is written.
func composerPrograms(seed uint64) []proto.Source { return nil }
