package main

import (
	"encoding/json"
	"fmt"
	"os"
	"path/filepath"
	"sort"
	"strings"

	"github.com/gogpu/naga/zverif/proto"
	"github.com/gogpu/naga/zverif/simrt"
)

// ---------------------------------------------------------------------------
// PRNG: everything is derived from one integer (VERIF_SEED) by splitmix.
// ---------------------------------------------------------------------------

type rng struct{ s uint64 }

func newRng(seed uint64, stream uint64) *rng { return &rng{s: simrt.Mix(seed, stream)} }
func (r *rng) next() uint64                  { r.s = simrt.Mix(r.s, 0x2545f4914f6cdd1d); return r.s }
func (r *rng) intn(n int) int {
	if n <= 1 {
		return 0
	}
	return int(r.next() % uint64(n))
}
func (r *rng) chance(p float64) bool { return float64(r.next()>>11)/(1<<53) < p }
func pick[T any](r *rng, xs []T) T   { return xs[r.intn(len(xs))] }

// ---------------------------------------------------------------------------
// Corpus
// ---------------------------------------------------------------------------

type program struct {
	proto.Source
	info proto.ModuleInfo
}

type corpus struct {
	progs     []*program
	lowerable []*program // lower without error
	withOv    []*program // lowerable and declaring overrides
	multiEP   []*program
}

func loadCorpus(dir string, extra []proto.Source, x *executor) (*corpus, error) {
	files, err := filepath.Glob(filepath.Join(dir, "*.wgsl"))
	if err != nil {
		return nil, err
	}
	sort.Strings(files)
	var srcs []proto.Source
	for _, f := range files {
		b, err := os.ReadFile(f)
		if err != nil {
			return nil, err
		}
		srcs = append(srcs, proto.Source{Name: strings.TrimSuffix(filepath.Base(f), ".wgsl"), WGSL: string(b)})
	}
	srcs = append(srcs, extra...)
	if len(srcs) == 0 {
		return nil, fmt.Errorf("no WGSL sources under %s", dir)
	}
	infos, err := x.describe(srcs)
	if err != nil {
		return nil, err
	}
	c := &corpus{}
	for i, s := range srcs {
		p := &program{Source: s, info: infos[i]}
		c.progs = append(c.progs, p)
		if p.info.LowerErr == "" && len(p.info.EntryPoints) > 0 {
			c.lowerable = append(c.lowerable, p)
			if len(p.info.Overrides) > 0 {
				c.withOv = append(c.withOv, p)
			}
			if len(p.info.EntryPoints) > 1 {
				c.multiEP = append(c.multiEP, p)
			}
		}
	}
	return c, nil
}

func (x *executor) describe(srcs []proto.Source) ([]proto.ModuleInfo, error) {
	// metadata only (entry points, bindings, overrides): batching is harmless
	var out []proto.ModuleInfo
	const chunk = 64
	for i := 0; i < len(srcs); i += chunk {
		j := i + chunk
		if j > len(srcs) {
			j = len(srcs)
		}
		in, _ := json.Marshal(srcs[i:j])
		so, err := runCmd(x.worker, in, "describe", "-")
		if err != nil {
			return nil, toolErrf("describe failed: %v", err)
		}
		var infos []proto.ModuleInfo
		if err := json.Unmarshal(so, &infos); err != nil {
			return nil, toolErrf("describe output: %v", err)
		}
		out = append(out, infos...)
	}
	return out, nil
}

// ---------------------------------------------------------------------------
// Option catalogue.  Each preset differs from the backend's defaults in a few
// dimensions; the number of presets is kept moderate so that pristine
// references are shared between scenarios.
// ---------------------------------------------------------------------------

func spirvDefault() proto.SpirvOpts {
	return proto.SpirvOpts{Version: proto.Version{Major: 1, Minor: 1}, Validation: true, UseStorageInputOutput16: true, ForceLoopBounding: true, RayQueryInitTracking: true}
}

func spirvPreset(r *rng) proto.SpirvOpts {
	o := spirvDefault()
	switch r.intn(12) {
	case 0, 1, 2:
	case 3:
		o.Version.Minor = 0
	case 4:
		o.Version.Minor = 3
	case 5:
		o.Version.Minor = 4
	case 6:
		o.Version.Minor = uint8(5 + r.intn(2))
	case 7:
		o.Debug = true
	case 8:
		o.BoundsImageLoad, o.BoundsImageStore, o.BoundsIndex = uint8(1+r.intn(2)), uint8(1+r.intn(2)), uint8(1+r.intn(2))
	case 9:
		o.ForceLoopBounding = false
		o.RayQueryInitTracking = false
	case 10:
		o.ForcePointSize, o.AdjustCoordinateSpace = true, true
	case 11:
		o.Debug = true
		o.Version.Minor = 3
		o.UseStorageInputOutput16 = false
	}
	return o
}

func mslDefault() proto.MSLOpts {
	return proto.MSLOpts{Version: proto.Version{Major: 2, Minor: 1}, BoundsIndex: 1, BoundsBuffer: 1, BoundsImage: 1, BoundsBindingArray: 1,
		ZeroInitWorkgroup: true, ForceLoopBounding: true, FakeMissingBindings: true}
}

func mslPreset(r *rng, p *program) proto.MSLOpts {
	o := mslDefault()
	switch r.intn(15) {
	case 12, 13, 14:
		if p != nil && len(p.info.Bindings) > 0 {
			o.FakeMissingBindings = false
			for i, b := range p.info.Bindings {
				o.PerEP = append(o.PerEP, proto.BindingTarget{Binding: b, Target: uint32(i % 28)})
			}
			for _, ep := range p.info.EntryPoints {
				o.EPNames = append(o.EPNames, ep.Name)
			}
		}
	case 0, 1, 2:
	case 3:
		o.Version = pick(r, []proto.Version{{Major: 1, Minor: 2}, {Major: 2, Minor: 0}, {Major: 2, Minor: 3}, {Major: 2, Minor: 4}})
	case 4:
		o.Version = pick(r, []proto.Version{{Major: 3, Minor: 0}, {Major: 3, Minor: 1}})
	case 5:
		o.BoundsIndex, o.BoundsBuffer, o.BoundsImage, o.BoundsBindingArray = 0, 0, 0, 0
	case 6:
		o.BoundsIndex, o.BoundsBuffer, o.BoundsImage, o.BoundsBindingArray = 2, 2, 2, 2
	case 7:
		o.ZeroInitWorkgroup, o.ForceLoopBounding = false, false
	case 8:
		o.FakeMissingBindings = false
	case 9:
		o.AllowAndForcePointSize = true
	case 10, 11:
		o.UsePipeline = true
		if p != nil && len(p.info.EntryPoints) > 0 {
			ep := pick(r, p.info.EntryPoints)
			o.EntryPoint, o.EPStage = ep.Name, ep.Stage
		}
	}
	return o
}

const (
	stageVertex   = 0
	stageTask     = 1
	stageMesh     = 2
	stageFragment = 3
	stageCompute  = 4
)

func glslPreset(r *rng, p *program) proto.GLSLOpts {
	o := proto.GLSLOpts{Version: proto.Version{Major: 3, Minor: 30}, ForceHighPrecision: true}
	stage := stageVertex
	if p != nil && len(p.info.EntryPoints) > 0 {
		ep := pick(r, p.info.EntryPoints)
		o.EntryPoint, stage = ep.Name, ep.Stage
	}
	if stage == stageCompute {
		o.Version = pick(r, []proto.Version{{Major: 4, Minor: 30}, {Major: 4, Minor: 50}, {Major: 3, Minor: 10, ES: true}, {Major: 3, Minor: 20, ES: true}})
	} else {
		o.Version = pick(r, []proto.Version{{Major: 3, Minor: 30}, {Major: 3, Minor: 30}, {Major: 4, Minor: 50}, {Major: 3, Minor: 0, ES: true}, {Major: 3, Minor: 10, ES: true}})
	}
	switch r.intn(8) {
	case 0, 1, 2:
	case 3:
		o.WriterFlags = 1<<4 | 1<<5 // adjust coordinate space | force point size
	case 4:
		o.BoundsImageLoad, o.BoundsImageStore = uint8(1+r.intn(2)), uint8(1+r.intn(2))
	case 5:
		if p != nil {
			for i, b := range p.info.Bindings {
				o.BindingMap = append(o.BindingMap, proto.BindingTarget{Binding: b, Target: uint32(i + 2)})
			}
		}
	case 6:
		o.SamplerBase, o.TextureBase, o.UniformBase, o.StorageBase = 1, 2, 3, 4
	case 7:
		o.ForceHighPrecision = false
		o.WriterFlags = 1 << 6
	}
	return o
}

func hlslPreset(r *rng, p *program) proto.HLSLOpts {
	o := proto.HLSLOpts{ShaderModel: 1, FakeMissingBindings: true, ZeroInitWorkgroup: true, RestrictIndexing: true, ForceLoopBounding: true}
	switch r.intn(14) {
	case 0, 1, 2:
	case 3:
		o.ShaderModel = 0
	case 4:
		o.ShaderModel = uint8(2 + r.intn(6))
	case 5:
		o.RestrictIndexing, o.ForceLoopBounding, o.ZeroInitWorkgroup = false, false, false
	case 6, 12, 13:
		// an explicit binding table; its CONTENT is drawn, so that a caller
		// that edits its table between two calls (same keys, new targets) occurs
		if p != nil {
			base, sp := uint32(r.intn(4)), uint32(r.intn(3))
			for i, b := range p.info.Bindings {
				o.BindingMap = append(o.BindingMap, proto.BindingTarget{Binding: b, Target: base + uint32(i), Space: (sp + uint32(i)) % 3})
			}
		}
	case 7:
		o.FakeMissingBindings = false
	case 8:
		o.SpecialConstants = true
	case 9:
		if p != nil && len(p.info.EntryPoints) > 0 {
			o.EntryPoint = pick(r, p.info.EntryPoints).Name
		}
	case 10:
		o.SamplerBufferMap = true
	case 11:
		o.DynOffsets = true
		o.SamplerBufferMap = true
	}
	return o
}

func dxilPreset(r *rng, p *program) proto.DXILOpts {
	o := proto.DXILOpts{}
	switch r.intn(9) {
	case 8:
		o.SamplerBufferMap = true
		o.SamplerHeap = true
	case 0, 1, 2:
	case 3:
		o.SMMinor = uint32(1 + r.intn(6))
	case 4:
		o.UseBypassHash = true
	case 5:
		if p != nil {
			for i, b := range p.info.Bindings {
				o.BindingMap = append(o.BindingMap, proto.BindingTarget{Binding: b, Target: uint32(i), Space: uint32(i % 2)})
			}
		}
	case 6:
		o.SamplerHeap = true
	case 7:
		o.SMMinor = 6
		o.UseBypassHash = true
	}
	return o
}

func oneshotPreset(r *rng) proto.OneshotOpts {
	o := proto.OneshotOpts{Version: proto.Version{Major: 1, Minor: 3}, Validate: true}
	switch r.intn(5) {
	case 0, 1:
	case 2:
		o.Debug = true
	case 3:
		o.Validate = false
	case 4:
		o.Version.Minor = uint8(r.intn(7))
	}
	return o
}

// constsFor draws a pipeline-constant assignment for a program with overrides.
// mode: full (every override, by id where it has one), byname, partial
// (defaults relied upon), missing (drops one required value), weird (NaN,
// infinities, out-of-range values).
func constsFor(r *rng, p *program) (cs []proto.Const, mode string) {
	mode = pick(r, []string{"full", "full", "byname", "partial", "partial", "missing", "weird", "none", "foreign"})
	vals := []string{"0", "1", "2", "3", "7", "-1", "0.5", "2.5", "-3.75", "100", "65536"}
	weird := []string{"NaN", "+Inf", "-Inf", "4294967296", "-2147483649", "1e30", "0.1"}
	if mode == "none" {
		return nil, mode
	}
	if mode == "foreign" {
		// a pipeline-wide map none of whose keys names an override of THIS module
		return []proto.Const{{Key: "unrelated_pipeline_constant", Value: pick(r, vals)}, {Key: "60000", Value: pick(r, vals)}}, mode
	}
	dropped := false
	for _, ov := range p.info.Overrides {
		key := ov.Name
		if ov.ID >= 0 && mode != "byname" {
			key = fmt.Sprint(ov.ID)
		}
		if key == "" {
			continue
		}
		v := pick(r, vals)
		switch mode {
		case "partial":
			if ov.HasDefault && r.chance(0.6) {
				continue
			}
		case "missing":
			if !ov.HasDefault && !dropped {
				dropped = true
				continue
			}
			if ov.HasDefault && r.chance(0.5) {
				continue
			}
		case "weird":
			if r.chance(0.5) {
				v = pick(r, weird)
			}
		}
		cs = append(cs, proto.Const{Key: key, Value: v})
	}
	return cs, mode
}

// missingRequired reports whether the assignment leaves an override that has
// no default initialiser without a value (=> the property demands an error).
func missingRequired(p *program, cs []proto.Const) bool {
	have := map[string]bool{}
	for _, c := range cs {
		have[c.Key] = true
	}
	for _, ov := range p.info.Overrides {
		if ov.HasDefault {
			continue
		}
		if ov.ID >= 0 && have[fmt.Sprint(ov.ID)] {
			continue
		}
		if ov.Name != "" && have[ov.Name] {
			continue
		}
		return true
	}
	return false
}

// ---------------------------------------------------------------------------
// Scenario builder
// ---------------------------------------------------------------------------

type builder struct {
	sc       *proto.Scenario
	r        *rng
	nextObj  int
	progOf   map[int]*program // object id -> program it stems from
	srcIdx   map[*program]int
	family   string
	syncBias bool // the instrumented tree has synchronisation seams
	// expectMissingErr: operations that must fail because a required override
	// value is missing (C14 rule), keyed by position
	expectErr map[proto.Ref]bool
}

func newBuilder(seed uint64, family string) *builder {
	return &builder{sc: &proto.Scenario{Seed: seed, Label: family, Monitor: 1}, r: newRng(seed, 1), nextObj: 1,
		progOf: map[int]*program{}, srcIdx: map[*program]int{}, family: family, expectErr: map[proto.Ref]bool{}}
}

func (b *builder) task() int {
	b.sc.Tasks = append(b.sc.Tasks, nil)
	return len(b.sc.Tasks) - 1
}

func (b *builder) source(p *program) int {
	if i, ok := b.srcIdx[p]; ok {
		return i
	}
	b.sc.Sources = append(b.sc.Sources, p.Source)
	b.srcIdx[p] = len(b.sc.Sources) - 1
	return len(b.sc.Sources) - 1
}

func (b *builder) add(t int, op proto.Op) proto.Ref {
	b.sc.Tasks[t] = append(b.sc.Tasks[t], op)
	return proto.Ref{Task: t, Op: len(b.sc.Tasks[t]) - 1}
}

func (b *builder) lower(t int, p *program) (int, proto.Ref) {
	id := b.nextObj
	b.nextObj++
	b.progOf[id] = p
	return id, b.add(t, proto.Op{Kind: proto.OpLower, Src: b.source(p), Dst: id})
}

func (b *builder) resolve(t int, mod int, cs []proto.Const, after ...proto.Ref) (int, proto.Ref) {
	id := b.nextObj
	b.nextObj++
	b.progOf[id] = b.progOf[mod]
	ref := b.add(t, proto.Op{Kind: proto.OpResolve, Mod: mod, Dst: id, Consts: cs, After: after})
	if missingRequired(b.progOf[mod], cs) {
		b.expectErr[ref] = true
	}
	return id, ref
}

var backendKinds = []string{proto.OpSpirv, proto.OpMSL, proto.OpGLSL, proto.OpHLSL, proto.OpDXIL}

// backendOp draws options for one backend kind on module object mod.
func (b *builder) backendOp(kind string, mod int, after ...proto.Ref) proto.Op {
	p := b.progOf[mod]
	op := proto.Op{Kind: kind, Mod: mod, After: after}
	switch kind {
	case proto.OpSpirv:
		o := spirvPreset(b.r)
		op.Spirv = &o
	case proto.OpMSL:
		o := mslPreset(b.r, p)
		if p != nil && len(p.info.Overrides) > 0 && b.r.chance(0.35) {
			o.Consts, _ = constsFor(b.r, p)
			o.HasConsts = true
		}
		op.MSL = &o
	case proto.OpGLSL:
		o := glslPreset(b.r, p)
		if p != nil && len(p.info.Overrides) > 0 && b.r.chance(0.35) {
			o.Consts, _ = constsFor(b.r, p)
			o.HasConsts = true
		}
		op.GLSL = &o
	case proto.OpHLSL:
		o := hlslPreset(b.r, p)
		// the caller keeps one *hlsl.Options for all its HLSL calls and edits
		// it between them
		o.ReuseOptions = b.r.chance(0.5)
		op.HLSL = &o
	case proto.OpDXIL:
		o := dxilPreset(b.r, p)
		op.DXIL = &o
	}
	return op
}

func (b *builder) newBackend() int {
	b.sc.Backends = append(b.sc.Backends, spirvPreset(b.r))
	return len(b.sc.Backends) - 1
}

// drawFaults sets the schedule family and the map-order fault for the run.
func (b *builder) drawFaults(nSites int, allowPreempt bool) {
	r := b.r
	// map order
	switch r.intn(10) {
	case 0, 1, 2:
		b.sc.Perm = simrt.PermSpec{Mode: simrt.PermCanonical}
	case 3, 4:
		b.sc.Perm = simrt.PermSpec{Mode: simrt.PermReverse, All: true}
	case 5, 6:
		b.sc.Perm = simrt.PermSpec{Mode: simrt.PermRandom, All: true, Seed: r.next()}
	case 7:
		b.sc.Perm = simrt.PermSpec{Mode: simrt.PermRotate, All: true, K: 1 + r.intn(5)}
	case 8:
		// one site
		b.sc.Perm = simrt.PermSpec{Mode: pick(r, []string{simrt.PermReverse, simrt.PermRandom}), Seed: r.next(), Sites: []uint32{uint32(1 + r.intn(nSites))}}
	case 9:
		// a few sites
		var s []uint32
		for i := 0; i < 2+r.intn(6); i++ {
			s = append(s, uint32(1+r.intn(nSites)))
		}
		b.sc.Perm = simrt.PermSpec{Mode: pick(r, []string{simrt.PermReverse, simrt.PermRandom, simrt.PermRotate}), Seed: r.next(), K: 1 + r.intn(3), Sites: s}
	}
	// simulated process environment (only matters if the tree reads a clock,
	// the environment, the pid or a random source: latent seams)
	if r.chance(0.6) {
		b.sc.EnvSeed = r.next() | 1
	}
	if r.chance(0.5) {
		// environment at process start (overwritten with the serving
		// process's own when the scenario runs on a serving worker)
		b.sc.ProcEnv = r.next() | 1
	}
	// pool behaviour (only matters if the tree uses sync.Pool: latent seam)
	if r.chance(0.5) {
		b.sc.PoolSeed = r.next() | 1
	}
	// schedule
	b.sc.Sched = proto.Sched{Seed: r.next()}
	if allowPreempt && len(b.sc.Tasks) > 1 {
		b.sc.Sched.MeanQuantum = pick(r, []int64{0, 50000, 5000, 5000, 500, 500, 50})
		b.sc.Sched.Dist = pick(r, []string{"uniform", "uniform", "geometric", "stall"})
		if r.chance(0.1) {
			b.sc.Sched.StarveTask = 1 + r.intn(len(b.sc.Tasks))
		}
		b.sc.Sched.SyncPreempt = pick(r, []int{0, 20, 100, 300})
		if b.syncBias {
			// the tree uses locks/pools: switch at synchronisation points much
			// more often, and often let one task stall while the others finish
			// (atomicity violations need a whole operation of B inside a gap of A)
			b.sc.Sched.SyncPreempt = pick(r, []int{100, 300, 500})
			if r.chance(0.5) {
				b.sc.Sched.Dist = "stall"
			}
			if b.sc.Sched.MeanQuantum == 0 {
				b.sc.Sched.MeanQuantum = pick(r, []int64{50000, 5000})
			}
		}
		// pre-emption right before non-local writes (expected: a handful to a
		// few dozen extra switches per operation)
		b.sc.Sched.WritePreempt = pick(r, []int{0, 0, 0, 5, 15, 40})
		if b.sc.Sched.MeanQuantum > 0 && b.sc.Sched.MeanQuantum <= 50 {
			b.sc.Monitor = 8
		}
	}
}
