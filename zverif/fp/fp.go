// Package fp computes deep structural fingerprints of arbitrary Go values by
// reflection.  It is the monitor behind invariants I-MUT / I-OPT / I-GLOBAL:
// it runs on the scheduler goroutine while every task is parked, touches the
// observed objects only through reflect (never through instrumented code),
// draws no randomness and reads no clock, so monitoring cannot perturb a run.
//
// Distinctions kept on purpose: nil vs empty slice/map, pointer nil-ness,
// dynamic type of interface values, float bit patterns, unexported fields.
// Map entries are combined commutatively, so the fingerprint is independent of
// map iteration order.
package fp

import (
	"fmt"
	"math"
	"reflect"
	"sort"
	"strconv"
	"strings"
)

const simrtPkg = "github.com/gogpu/naga/zverif/simrt"

const (
	tagNil   = 0x9e3779b97f4a7c15
	tagPtr   = 0xbf58476d1ce4e5b9
	tagSlice = 0x94d049bb133111eb
	tagMap   = 0xd6e8feb86659fd93
	tagIface = 0xa0761d6478bd642f
	tagEmpty = 0xe7037ed1a0b428db
	tagSpare = 0x8ebc6af09c88c6e3
	maxDepth = 200
)

func mix(h, x uint64) uint64 {
	h ^= x + 0x9e3779b97f4a7c15 + (h << 6) + (h >> 2)
	h *= 0xff51afd7ed558ccd
	h ^= h >> 33
	return h
}

func strHash(s string) uint64 {
	h := uint64(14695981039346656037)
	for i := 0; i < len(s); i++ {
		h ^= uint64(s[i])
		h *= 1099511628211
	}
	return mix(h, uint64(len(s)))
}

var typeHashes = map[reflect.Type]uint64{}

func typeHash(t reflect.Type) uint64 {
	if h, ok := typeHashes[t]; ok {
		return h
	}
	h := strHash(t.String())
	typeHashes[t] = h
	return h
}

// Hash returns the deep fingerprint of v (pass a pointer to observe a variable).
func Hash(v any) uint64 {
	return hashValue(reflect.ValueOf(v), 0)
}

func hashValue(v reflect.Value, depth int) uint64 {
	if depth > maxDepth {
		return 0xdeadbeef
	}
	switch v.Kind() {
	case reflect.Invalid:
		return tagNil
	case reflect.Bool:
		if v.Bool() {
			return 3
		}
		return 2
	case reflect.Int, reflect.Int8, reflect.Int16, reflect.Int32, reflect.Int64:
		return mix(5, uint64(v.Int()))
	case reflect.Uint, reflect.Uint8, reflect.Uint16, reflect.Uint32, reflect.Uint64, reflect.Uintptr:
		return mix(7, v.Uint())
	case reflect.Float32, reflect.Float64:
		return mix(11, math.Float64bits(v.Float()))
	case reflect.Complex64, reflect.Complex128:
		c := v.Complex()
		return mix(mix(13, math.Float64bits(real(c))), math.Float64bits(imag(c)))
	case reflect.String:
		return strHash(v.String())
	case reflect.Pointer:
		if v.IsNil() {
			return tagNil
		}
		return mix(tagPtr, hashValue(v.Elem(), depth+1))
	case reflect.Interface:
		if v.IsNil() {
			return tagNil
		}
		e := v.Elem()
		return mix(mix(tagIface, typeHash(e.Type())), hashValue(e, depth+1))
	case reflect.Slice:
		if v.IsNil() {
			return tagNil
		}
		n := v.Len()
		if n == 0 {
			return mix(tagEmpty, spareHash(v, depth))
		}
		h := mix(tagSlice, uint64(n))
		if v.Type().Elem().Kind() == reflect.Uint8 {
			b := v.Bytes()
			for _, c := range b {
				h = mix(h, uint64(c))
			}
			return mix(h, spareHash(v, depth))
		}
		for i := 0; i < n; i++ {
			h = mix(h, hashValue(v.Index(i), depth+1))
		}
		return mix(h, spareHash(v, depth))
	case reflect.Array:
		n := v.Len()
		h := mix(tagSlice, uint64(n))
		for i := 0; i < n; i++ {
			h = mix(h, hashValue(v.Index(i), depth+1))
		}
		return h
	case reflect.Map:
		if v.IsNil() {
			return tagNil
		}
		if v.Len() == 0 {
			return tagEmpty
		}
		var sum uint64
		it := v.MapRange()
		for it.Next() {
			sum += mix(hashValue(it.Key(), depth+1), hashValue(it.Value(), depth+1))
		}
		return mix(mix(tagMap, uint64(v.Len())), sum)
	case reflect.Struct:
		if v.Type().PkgPath() == simrtPkg {
			// simulator-owned synchronisation objects (Mutex, Pool ...):
			// their internal state is not compiler state
			return typeHash(v.Type())
		}
		n := v.NumField()
		h := typeHash(v.Type())
		for i := 0; i < n; i++ {
			h = mix(h, hashValue(v.Field(i), depth+1))
		}
		return h
	case reflect.Func, reflect.Chan, reflect.UnsafePointer:
		if v.IsNil() {
			return tagNil
		}
		return tagPtr
	}
	return 0
}

// pointerFree reports whether values of type t contain no pointers (so that
// reading stale elements beyond a slice's length is harmless and meaningful).
var pointerFreeCache = map[reflect.Type]bool{}

func pointerFree(t reflect.Type) bool {
	if r, ok := pointerFreeCache[t]; ok {
		return r
	}
	r := false
	switch t.Kind() {
	case reflect.Bool, reflect.Int, reflect.Int8, reflect.Int16, reflect.Int32, reflect.Int64,
		reflect.Uint, reflect.Uint8, reflect.Uint16, reflect.Uint32, reflect.Uint64, reflect.Uintptr,
		reflect.Float32, reflect.Float64, reflect.Complex64, reflect.Complex128:
		r = true
	case reflect.Array:
		r = pointerFree(t.Elem())
	case reflect.Struct:
		r = true
		for i := 0; i < t.NumField(); i++ {
			if !pointerFree(t.Field(i).Type) {
				r = false
			}
		}
	}
	pointerFreeCache[t] = r
	return r
}

// spareHash fingerprints the elements between a slice's length and its
// capacity (pointer-free element types only). That region is memory of the
// observed object too: `append(shared[:0], ...)` or an append within spare
// capacity writes there without changing any visible length - the classic
// shape of a shared scratch buffer.
func spareHash(v reflect.Value, depth int) uint64 {
	n, c := v.Len(), v.Cap()
	if c <= n || depth > 40 {
		return 0
	}
	if !pointerFree(v.Type().Elem()) {
		// elements that hold pointers (strings, interfaces, nested slices):
		// appends into the spare capacity of an array that several module
		// copies share are writes to shared memory too. Stale elements are
		// ordinary reachable values; they are fingerprinted like live ones, but
		// only for moderately sized regions.
		if c-n > 64 {
			return 0
		}
	} else if c-n > 1<<16 {
		return 0
	}
	sp := v.Slice(0, c)
	h := mix(tagSpare, uint64(c-n))
	for i := n; i < c; i++ {
		h = mix(h, hashValue(sp.Index(i), depth+1))
	}
	return h
}

// Entry is one leaf (or container header) of a flattened value.
type Entry struct {
	Path string
	Hash uint64
	Repr string
}

// Flatten lists every leaf and container header of v with its path, in
// deterministic order (map entries sorted by rendered key).
func Flatten(v any) []Entry {
	var out []Entry
	flat(reflect.ValueOf(v), "", 0, &out)
	return out
}

func leaf(out *[]Entry, path string, h uint64, repr string) {
	*out = append(*out, Entry{path, h, repr})
}

func flat(v reflect.Value, path string, depth int, out *[]Entry) {
	if depth > maxDepth {
		return
	}
	switch v.Kind() {
	case reflect.Pointer:
		if v.IsNil() {
			leaf(out, path, tagNil, "nil")
			return
		}
		flat(v.Elem(), path, depth+1, out)
	case reflect.Interface:
		if v.IsNil() {
			leaf(out, path, tagNil, "nil")
			return
		}
		e := v.Elem()
		tn := e.Type().String()
		if i := strings.LastIndexByte(tn, '.'); i >= 0 {
			tn = tn[i+1:]
		}
		flat(e, path+".("+tn+")", depth+1, out)
	case reflect.Slice:
		if v.IsNil() {
			leaf(out, path+".len", tagNil, "nil")
			return
		}
		leaf(out, path+".len", uint64(v.Len())+1, strconv.Itoa(v.Len()))
		if sh := spareHash(v, 0); sh != 0 {
			leaf(out, path+".spare-capacity", sh, fmt.Sprintf("%d elements beyond len", v.Cap()-v.Len()))
		}
		if v.Type().Elem().Kind() == reflect.Uint8 {
			leaf(out, path, hashValue(v, 0), fmt.Sprintf("%d bytes", v.Len()))
			return
		}
		for i := 0; i < v.Len(); i++ {
			flat(v.Index(i), path+"["+strconv.Itoa(i)+"]", depth+1, out)
		}
	case reflect.Array:
		for i := 0; i < v.Len(); i++ {
			flat(v.Index(i), path+"["+strconv.Itoa(i)+"]", depth+1, out)
		}
	case reflect.Map:
		if v.IsNil() {
			leaf(out, path+".len", tagNil, "nil")
			return
		}
		leaf(out, path+".len", uint64(v.Len())+1, strconv.Itoa(v.Len()))
		type kv struct {
			k string
			v reflect.Value
		}
		var kvs []kv
		it := v.MapRange()
		for it.Next() {
			kvs = append(kvs, kv{renderKey(it.Key()), it.Value()})
		}
		sort.Slice(kvs, func(i, j int) bool { return kvs[i].k < kvs[j].k })
		for _, e := range kvs {
			flat(e.v, path+"{"+e.k+"}", depth+1, out)
		}
	case reflect.Struct:
		t := v.Type()
		if t.PkgPath() == simrtPkg {
			return
		}
		for i := 0; i < v.NumField(); i++ {
			p := t.Field(i).Name
			if path != "" {
				p = path + "." + p
			}
			flat(v.Field(i), p, depth+1, out)
		}
	default:
		leaf(out, path, hashValue(v, 0), renderLeaf(v))
	}
}

func renderLeaf(v reflect.Value) string {
	switch v.Kind() {
	case reflect.Bool:
		return strconv.FormatBool(v.Bool())
	case reflect.Int, reflect.Int8, reflect.Int16, reflect.Int32, reflect.Int64:
		return strconv.FormatInt(v.Int(), 10)
	case reflect.Uint, reflect.Uint8, reflect.Uint16, reflect.Uint32, reflect.Uint64, reflect.Uintptr:
		return strconv.FormatUint(v.Uint(), 10)
	case reflect.Float32, reflect.Float64:
		return strconv.FormatFloat(v.Float(), 'g', -1, 64)
	case reflect.String:
		s := v.String()
		if len(s) > 40 {
			s = s[:40] + "..."
		}
		return strconv.Quote(s)
	}
	return v.Kind().String()
}

func renderKey(v reflect.Value) string {
	switch v.Kind() {
	case reflect.Struct:
		var parts []string
		for i := 0; i < v.NumField(); i++ {
			parts = append(parts, renderKey(v.Field(i)))
		}
		return strings.Join(parts, ",")
	}
	return renderLeaf(v)
}

// Diff lists paths whose value differs between two flattenings (changed,
// added or removed), at most max of them, each as "path: old -> new".
func Diff(a, b []Entry, max int) (paths []string, details []string) {
	am := make(map[string]Entry, len(a))
	for _, e := range a {
		am[e.Path] = e
	}
	bm := make(map[string]Entry, len(b))
	for _, e := range b {
		bm[e.Path] = e
	}
	for _, e := range a {
		o, ok := bm[e.Path]
		switch {
		case !ok:
			paths = append(paths, e.Path)
			details = append(details, e.Path+": "+e.Repr+" -> (gone)")
		case o.Hash != e.Hash:
			paths = append(paths, e.Path)
			details = append(details, e.Path+": "+e.Repr+" -> "+o.Repr)
		}
		if len(paths) >= max {
			return
		}
	}
	for _, e := range b {
		if _, ok := am[e.Path]; !ok {
			paths = append(paths, e.Path)
			details = append(details, e.Path+": (new) -> "+e.Repr)
			if len(paths) >= max {
				return
			}
		}
	}
	return
}

// Normalise replaces concrete indices and map keys in a path by '*', so that
// a finding can be keyed by the shape of what was altered.
func Normalise(p string) string {
	var b strings.Builder
	skip := byte(0)
	for i := 0; i < len(p); i++ {
		c := p[i]
		if skip != 0 {
			if c == skip {
				b.WriteByte(c)
				skip = 0
			}
			continue
		}
		b.WriteByte(c)
		if c == '[' {
			b.WriteByte('*')
			skip = ']'
		} else if c == '{' {
			b.WriteByte('*')
			skip = '}'
		}
	}
	return b.String()
}
