// Package proto defines the scenario and result formats exchanged between the
// driver (which generates, judges and shrinks scenarios and never links the
// compiler) and the worker (one fresh OS process per scenario, linking the
// instrumented compiler).  A Scenario serialised to JSON, together with the
// recorded explicit schedule, is also the replay file format.
package proto

import "github.com/gogpu/naga/zverif/simrt"

// Source is one WGSL program, carried verbatim so a replay file is
// self-contained.
type Source struct {
	Name string `json:"name"`
	WGSL string `json:"wgsl"`
}

// Op kinds.
const (
	OpLower    = "lower"    // parse + lower Src            -> module object Dst
	OpResolve  = "resolve"  // clone Mod + ProcessOverrides -> module object Dst
	OpSpirvB   = "spirvB"   // Backends[Backend].Compile(Mod)  (reusable instance)
	OpSpirv    = "spirv"    // naga.GenerateSPIRV(Mod, Spirv)
	OpMSL      = "msl"      // msl.Compile / CompileWithPipeline
	OpGLSL     = "glsl"     // glsl.Compile
	OpHLSL     = "hlsl"     // hlsl.Compile
	OpDXIL     = "dxil"     // dxil.Compile
	OpValidate = "validate" // ir.Validate(Mod)
	OpOneshot  = "oneshot"  // naga.CompileWithOptions(source text)
	OpCompact  = "compact"  // ir.CompactUnused on a task-private module (in place)
	OpInline   = "inline"   // ir.InlineUserFunctions on a task-private module (in place)
	OpScribble = "scribble" // caller overwrites a result it was handed earlier
	// OpResolveInPlace: ir.ProcessOverrides directly on a task-private module
	// (the caller's own copy). A FAILED call must leave that module as it was:
	// the caller is entitled to retry with a complete value map.
	OpResolveInPlace = "resolve_inplace"
	// OpClone: ir.CloneModule(Mod) -> module object Dst (the exported deep copy
	// on which a caller runs passes without touching the original).
	OpClone = "clone"
)

// Ref names an operation by position.
type Ref struct {
	Task int `json:"t"`
	Op   int `json:"o"`
}

type Version struct {
	Major uint8 `json:"major"`
	Minor uint8 `json:"minor"`
	ES    bool  `json:"es,omitempty"`
}

type SpirvOpts struct {
	Version                 Version `json:"version"`
	Debug                   bool    `json:"debug,omitempty"`
	Validation              bool    `json:"validation,omitempty"`
	UseStorageInputOutput16 bool    `json:"io16,omitempty"`
	ForcePointSize          bool    `json:"pointsize,omitempty"`
	AdjustCoordinateSpace   bool    `json:"adjust,omitempty"`
	ForceLoopBounding       bool    `json:"loopbound,omitempty"`
	BoundsImageLoad         uint8   `json:"b_imgload,omitempty"`
	BoundsImageStore        uint8   `json:"b_imgstore,omitempty"`
	BoundsIndex             uint8   `json:"b_index,omitempty"`
	BoundsBuffer            uint8   `json:"b_buffer,omitempty"`
	BoundsBindingArray      uint8   `json:"b_bindarr,omitempty"`
	RayQueryInitTracking    bool    `json:"rqtrack,omitempty"`
}

type Binding struct {
	Group   uint32 `json:"g"`
	Binding uint32 `json:"b"`
}

type MSLOpts struct {
	Version                Version `json:"version"`
	BoundsIndex            uint8   `json:"b_index"`
	BoundsBuffer           uint8   `json:"b_buffer"`
	BoundsImage            uint8   `json:"b_image"`
	BoundsBindingArray     uint8   `json:"b_bindarr"`
	ZeroInitWorkgroup      bool    `json:"zeroinit,omitempty"`
	ForceLoopBounding      bool    `json:"loopbound,omitempty"`
	FakeMissingBindings    bool    `json:"fake,omitempty"`
	AllowAndForcePointSize bool    `json:"pointsize,omitempty"`
	Consts                 []Const `json:"consts,omitempty"` // JSON-safe form of PipelineConstants (NaN allowed)
	HasConsts              bool    `json:"has_consts,omitempty"`
	EntryPoint             string  `json:"ep,omitempty"` // with EPStage: CompileWithPipeline selector
	EPStage                int     `json:"ep_stage,omitempty"`
	UsePipeline            bool    `json:"pipeline,omitempty"`
	// PerEP: pass a PerEntryPointMap naming every (group,binding) of the module
	// for every entry point (EPNames), instead of relying on fake bindings.
	PerEP   []BindingTarget `json:"per_ep,omitempty"`
	EPNames []string        `json:"ep_names,omitempty"`
}

// Const is one pipeline-constant assignment. Value is carried as a string so
// that NaN and infinities survive JSON.
type Const struct {
	Key   string `json:"k"`
	Value string `json:"v"`
}

type GLSLOpts struct {
	Version            Version         `json:"version"`
	EntryPoint         string          `json:"ep,omitempty"`
	SamplerBase        uint32          `json:"sbase,omitempty"`
	TextureBase        uint32          `json:"tbase,omitempty"`
	UniformBase        uint32          `json:"ubase,omitempty"`
	StorageBase        uint32          `json:"stbase,omitempty"`
	WriterFlags        uint32          `json:"flags,omitempty"`
	ForceHighPrecision bool            `json:"highp,omitempty"`
	BoundsIndex        uint8           `json:"b_index,omitempty"`
	BoundsBuffer       uint8           `json:"b_buffer,omitempty"`
	BoundsImageLoad    uint8           `json:"b_imgload,omitempty"`
	BoundsImageStore   uint8           `json:"b_imgstore,omitempty"`
	BindingMap         []BindingTarget `json:"bindmap,omitempty"`
	Consts             []Const         `json:"consts,omitempty"`
	HasConsts          bool            `json:"has_consts,omitempty"`
}

type BindingTarget struct {
	Binding
	Target uint32 `json:"to"`
	Space  uint32 `json:"space,omitempty"`
}

type HLSLOpts struct {
	ShaderModel         uint8           `json:"sm"`
	BindingMap          []BindingTarget `json:"bindmap,omitempty"`
	FakeMissingBindings bool            `json:"fake,omitempty"`
	ZeroInitWorkgroup   bool            `json:"zeroinit,omitempty"`
	RestrictIndexing    bool            `json:"restrict,omitempty"`
	ForceLoopBounding   bool            `json:"loopbound,omitempty"`
	EntryPoint          string          `json:"ep,omitempty"`
	SpecialConstants    bool            `json:"special,omitempty"`
	// ReuseOptions: pass the *same* *hlsl.Options value as the previous hlsl
	// operation of this task (caller-owned options object reused across calls).
	ReuseOptions bool `json:"reuse_opts,omitempty"`
	// SamplerBufferMap / DynOffsets: fill the per-group option maps
	SamplerBufferMap bool `json:"sampler_buffer_map,omitempty"`
	DynOffsets       bool `json:"dyn_offsets,omitempty"`
}

type DXILOpts struct {
	SMMinor          uint32          `json:"sm_minor"`
	UseBypassHash    bool            `json:"bypass,omitempty"`
	BindingMap       []BindingTarget `json:"bindmap,omitempty"`
	SamplerHeap      bool            `json:"samplerheap,omitempty"`
	SamplerBufferMap bool            `json:"sampler_buffer_map,omitempty"`
}

type OneshotOpts struct {
	Version  Version `json:"version"`
	Debug    bool    `json:"debug,omitempty"`
	Validate bool    `json:"validate,omitempty"`
}

// Op is one caller action.
type Op struct {
	Kind    string `json:"kind"`
	Src     int    `json:"src,omitempty"`     // lower, oneshot
	Mod     int    `json:"mod,omitempty"`     // object id of the input module
	Dst     int    `json:"dst,omitempty"`     // object id produced (lower, resolve)
	Backend int    `json:"backend,omitempty"` // spirvB
	After   []Ref  `json:"after,omitempty"`   // happens-before dependencies
	Target  *Ref   `json:"target,omitempty"`  // scribble

	Spirv   *SpirvOpts   `json:"spirv,omitempty"`
	MSL     *MSLOpts     `json:"msl,omitempty"`
	GLSL    *GLSLOpts    `json:"glsl,omitempty"`
	HLSL    *HLSLOpts    `json:"hlsl,omitempty"`
	DXIL    *DXILOpts    `json:"dxil,omitempty"`
	Oneshot *OneshotOpts `json:"oneshot,omitempty"`
	Consts  []Const      `json:"consts,omitempty"` // resolve
	// Passes: for compact, which exported IR passes to run, in order ("unused",
	// "types", "reorder", "constants", "expressions", "dedup"); empty = "unused".
	Passes []string `json:"passes,omitempty"`

	// StepLimit caps the logical steps of this operation (0 = no cap).
	StepLimit uint64 `json:"step_limit,omitempty"`
}

// Slice is one scheduler decision: run Task for Steps yields, or until its
// next operation boundary when ToBoundary is set.
type Slice struct {
	Task       int    `json:"t"`
	Steps      int64  `json:"n"`
	ToBoundary bool   `json:"b,omitempty"`
	Op         int    `json:"o"`              // operation the task was in (informational)
	Site       uint32 `json:"site,omitempty"` // yield site where the slice ended (informational)
}

// Sched selects who runs when.
type Sched struct {
	// Explicit, if non-nil, is followed verbatim (replay). Entries naming a
	// task that is finished or not runnable are skipped; when the list is
	// exhausted remaining tasks run to completion in task order.
	Explicit []Slice `json:"explicit,omitempty"`
	// Seeded schedule (used when Explicit is nil).
	Seed        uint64 `json:"seed,omitempty"`
	MeanQuantum int64  `json:"mean_quantum,omitempty"` // 0: operations are atomic
	Dist        string `json:"dist,omitempty"`         // uniform | geometric | stall
	StarveTask  int    `json:"starve_task,omitempty"`  // 1-based; 0 = none
	// SyncPreempt: probability (per mille) of handing the token over right at
	// a synchronisation point (lock, unlock, once, pool get/put).
	SyncPreempt int `json:"sync_preempt,omitempty"`
	// WritePreempt: probability (per mille) of handing the token over at a
	// yield that sits right before a non-local write, while another task is
	// runnable.
	WritePreempt int `json:"write_preempt,omitempty"`
}

// Scenario is one simulated world.
type Scenario struct {
	Seed     uint64         `json:"seed"`
	Label    string         `json:"label,omitempty"`
	Sources  []Source       `json:"sources"`
	Backends []SpirvOpts    `json:"backends,omitempty"`
	Tasks    [][]Op         `json:"tasks"`
	Perm     simrt.PermSpec `json:"perm"`
	Sched    Sched          `json:"sched"`
	Monitor  int            `json:"monitor"` // check invariants every Nth slice (1 = every slice, 0 = only at operation boundaries)
	Dump     bool           `json:"dump,omitempty"`
	PoolSeed uint64         `json:"pool_seed,omitempty"`
	// EnvSeed: simulated process environment (clock, pid, environment
	// variables, directories, random source) seen through the latent seams;
	// 0 = the fixed world every pristine reference sees.
	EnvSeed uint64 `json:"env_seed,omitempty"`
	// ProcEnv: the simulated environment in force while the executing process
	// STARTED (package initialisers). Serving workers have it fixed for their
	// lifetime (the driver records it here after the run); a fresh process is
	// started with it.
	ProcEnv uint64 `json:"proc_env,omitempty"`
	// SyncPkgs: packages using synchronisation primitives (from the
	// instrumenter); a change of their package-level state is not by itself
	// a race and is not reported as I-GLOBAL (the worker still retires).
	SyncPkgs []string `json:"sync_pkgs,omitempty"`
	// RaceExemptPkgs: packages whose package-level variables the race detector
	// does not judge (they use synchronisation the simulator does not model).
	RaceExemptPkgs []string `json:"race_exempt_pkgs,omitempty"`
}

// OpResult is what one operation returned.
type OpResult struct {
	Task      int    `json:"t"`
	Op        int    `json:"o"`
	Kind      string `json:"kind"`
	Done      bool   `json:"done"`
	OK        bool   `json:"ok"`
	Err       string `json:"err,omitempty"`
	Panic     string `json:"panic,omitempty"`
	StepLimit bool   `json:"step_limit,omitempty"`
	OutHash   string `json:"out,omitempty"`
	OutLen    int    `json:"len,omitempty"`
	Info      string `json:"info,omitempty"` // canonical rendering of reflection data
	Steps     uint64 `json:"steps"`
	Start     uint64 `json:"start"` // global step at which the operation began / ended
	End       uint64 `json:"end"`
	Dump      []byte `json:"dump,omitempty"`
}

// Violation is an invariant broken inside the worker.
type Violation struct {
	Class  string   `json:"class"` // I-MUT, I-OPT, I-GLOBAL, O-ALIAS, I-LIVE
	Task   int      `json:"t"`     // culprit (who ran the slice)
	Op     int      `json:"o"`
	Kind   string   `json:"kind"`   // culprit operation kind
	Object string   `json:"object"` // e.g. module#1
	ObjID  int      `json:"obj_id"` // module object id (I-MUT)
	Paths  []string `json:"paths,omitempty"`
	Detail string   `json:"detail,omitempty"`
	AtStep uint64   `json:"at_step"`
	MidOp  bool     `json:"mid_op,omitempty"` // seen while the culprit operation was still running
	Healed bool     `json:"healed,omitempty"` // the object was back to its baseline at a later check
	// Suspects: every (task, op) that ran since the previous clean check.
	// Exactly one => Task/Op/Kind are the culprit; more => Kind is "ambiguous"
	// and the driver re-runs the recorded schedule with a check after every slice.
	Suspects []Ref `json:"suspects,omitempty"`
}

// Stats are measured, per run.
type Stats struct {
	Steps              uint64   `json:"steps"`
	Slices             int      `json:"slices"`
	Switches           uint64   `json:"switches"` // pre-emptions inside an operation
	Overlap            uint64   `json:"overlap"`  // pre-emptions while another op was in flight on the same module
	Stalls             int      `json:"stalls"`
	MonitorRuns        int      `json:"monitor_runs"`
	MapVisits          []uint32 `json:"map_visits"`      // per site, visits with >=2 entries
	MapPermuted        []uint32 `json:"map_permuted"`    // per site, visits with a non-identity order
	Pairs              []string `json:"pairs,omitempty"` // "running|inflight" backend kind pairs seen on one module
	PoolGets           uint64   `json:"pool_gets,omitempty"`
	PoolDrops          uint64   `json:"pool_drops,omitempty"`
	SyncPoints         uint64   `json:"sync_points,omitempty"`
	Touches            uint64   `json:"global_accesses,omitempty"` // accesses to package-level variables seen by the race detector
	WriteYields        uint64   `json:"write_yields,omitempty"`
	EnvReads           uint64   `json:"env_reads,omitempty"`
	SyncedGlobalWrites int      `json:"synced_global_writes,omitempty"`
	SwitchHash         string   `json:"switch_hash"` // hash of the (task,op,site) switch sequence
	YieldCover         int      `json:"yield_cover,omitempty"`
}

type Result struct {
	Seed       uint64      `json:"seed"`
	Ops        []OpResult  `json:"ops"`
	Schedule   []Slice     `json:"schedule"`
	Violations []Violation `json:"violations,omitempty"`
	Stats      Stats       `json:"stats"`
	LogHash    string      `json:"log_hash"`
	Fatal      string      `json:"fatal,omitempty"` // worker-level trouble (tooling), not a verdict
	Deadlock   bool        `json:"deadlock,omitempty"`
	// GlobalsDirty: package-level state of the compiler differs from what it
	// was at process start. Retire: a serving worker exits after this result.
	GlobalsDirty bool `json:"globals_dirty,omitempty"`
	Retire       bool `json:"retire,omitempty"`
	// Crashed: the process died while executing this scenario; Ops and
	// Violations are what it had streamed before dying, InFlight the
	// operations that had started and not finished.
	Crashed   bool   `json:"crashed,omitempty"`
	CrashText string `json:"crash_text,omitempty"`
	InFlight  []Ref  `json:"in_flight,omitempty"`
}

// Describe mode ---------------------------------------------------------

type EntryPointInfo struct {
	Name  string `json:"name"`
	Stage int    `json:"stage"`
}

type OverrideInfo struct {
	Name       string `json:"name"`
	ID         int    `json:"id"` // -1: none
	HasDefault bool   `json:"has_default"`
	Type       string `json:"type"`
}

type ModuleInfo struct {
	Name        string           `json:"name"`
	LowerErr    string           `json:"lower_err,omitempty"`
	EntryPoints []EntryPointInfo `json:"entry_points"`
	Bindings    []Binding        `json:"bindings"`
	Overrides   []OverrideInfo   `json:"overrides"`
	Functions   int              `json:"functions"`
	LowerSteps  uint64           `json:"lower_steps"`
}
