// Command worker executes exactly one scenario (one simulated world) in a
// fresh OS process and prints a proto.Result as JSON.
//
//	worker run <scenario.json>        execute a scenario ("-" = stdin)
//	worker describe <sources.json>    lower each source, print module metadata
//
// Built against the instrumented scratch copy of the compiler it is the
// simulator; built against the untouched tree (simrt seams absent, so the
// scheduler never gets a chance to pre-empt and map order is the runtime's)
// it is the "native" twin used by the fidelity check.
package main

import (
	"bufio"
	"crypto/sha256"
	"encoding/hex"
	"encoding/json"
	"fmt"
	"io"
	"math"
	"os"
	"runtime/debug"
	"sort"
	"strings"
	"syscall"

	"github.com/gogpu/naga/zverif/fp"
	"github.com/gogpu/naga/zverif/proto"
	"github.com/gogpu/naga/zverif/simrt"
)

func main() {
	if len(os.Args) < 2 {
		fmt.Fprintln(os.Stderr, "usage: worker run <file|-> [nsites] | serve [nsites] | describe <file|->")
		os.Exit(2)
	}
	debug.SetGCPercent(400)
	debug.SetMaxStack(256 << 20)
	// address-space cap: a runaway allocation kills this process, not the box
	var lim syscall.Rlimit
	if syscall.Getrlimit(syscall.RLIMIT_AS, &lim) == nil {
		lim.Cur = 12 << 30
		if lim.Max != 0 && lim.Cur > lim.Max {
			lim.Cur = lim.Max
		}
		syscall.Setrlimit(syscall.RLIMIT_AS, &lim)
	}
	processBaseline()
	readArg := func(i int) []byte {
		var data []byte
		var err error
		if len(os.Args) <= i || os.Args[i] == "-" {
			data, err = io.ReadAll(os.Stdin)
		} else {
			data, err = os.ReadFile(os.Args[i])
		}
		if err != nil {
			fmt.Fprintln(os.Stderr, "worker:", err)
			os.Exit(2)
		}
		return data
	}
	nSitesArg := func(i int) int {
		n := 0
		if len(os.Args) > i {
			fmt.Sscan(os.Args[i], &n)
		}
		return n
	}
	switch os.Args[1] {
	case "run":
		// a session: one scenario or a list of scenarios executed in order in
		// this one process; one result line per scenario
		data := readArg(2)
		var session []proto.Scenario
		if err := json.Unmarshal(data, &session); err != nil {
			var sc proto.Scenario
			if err2 := json.Unmarshal(data, &sc); err2 != nil {
				fmt.Fprintln(os.Stderr, "worker: bad scenario:", err2)
				os.Exit(2)
			}
			session = []proto.Scenario{sc}
		}
		for i := range session {
			res := runScenario(&session[i], nSitesArg(3))
			out, _ := json.Marshal(res)
			os.Stdout.Write(append(out, '\n'))
		}
	case "serve":
		// persistent mode: one scenario per input line, one result per output
		// line. The process retires itself as soon as package-level state of
		// the compiler differs from what it was at process start, so that no
		// later scenario can observe a non-pristine process.
		in := bufio.NewReaderSize(os.Stdin, 1<<20)
		out := bufio.NewWriter(os.Stdout)
		n := nSitesArg(2)
		for {
			line, err := in.ReadBytes('\n')
			if len(line) > 1 {
				var sc proto.Scenario
				if jerr := json.Unmarshal(line, &sc); jerr != nil {
					fmt.Fprintln(os.Stderr, "worker: bad scenario:", jerr)
					os.Exit(2)
				}
				res := runScenario(&sc, n)
				if res.Deadlock || res.GlobalsDirty || res.Fatal != "" {
					res.Retire = true
				}
				js, _ := json.Marshal(res)
				out.Write(append(js, '\n'))
				out.Flush()
				if res.Retire {
					return
				}
			}
			if err != nil {
				return
			}
		}
	case "describe":
		var srcs []proto.Source
		if err := json.Unmarshal(readArg(2), &srcs); err != nil {
			fmt.Fprintln(os.Stderr, "worker: bad sources:", err)
			os.Exit(2)
		}
		simrt.Configure(simrt.PermSpec{}, 4096)
		var infos []proto.ModuleInfo
		for _, s := range srcs {
			infos = append(infos, describe(s))
		}
		out, _ := json.Marshal(infos)
		os.Stdout.Write(append(out, '\n'))
	default:
		fmt.Fprintln(os.Stderr, "worker: unknown mode", os.Args[1])
		os.Exit(2)
	}
}

// Package-level state of the compiler as it was when this process started.
var (
	procGlobBase []uint64
	procGlobFlat [][]fp.Entry
	globalsDirty bool
)

func processBaseline() {
	sort.SliceStable(simrt.Globals, func(i, j int) bool { return simrt.Globals[i].Name < simrt.Globals[j].Name })
	for _, g := range simrt.Globals {
		procGlobBase = append(procGlobBase, fp.Hash(g.Ptr))
		procGlobFlat = append(procGlobFlat, fp.Flatten(g.Ptr))
	}
}

// emit streams one event line to stdout while a scenario runs: operation
// starts, operation results and invariant violations. If the process dies
// (a Go stack overflow is not recoverable) the driver still knows what had
// happened up to that point - in particular which modules had been altered
// by whom, and which operations were in flight.
func emit(kind string, v any) {
	js, err := json.Marshal(v)
	if err != nil {
		return
	}
	os.Stdout.Write([]byte(`{"ev":"` + kind + `","d":`))
	os.Stdout.Write(js)
	os.Stdout.Write([]byte("}\n"))
}

func hashBytes(b []byte) string {
	s := sha256.Sum256(b)
	return hex.EncodeToString(s[:12])
}

// ---------------------------------------------------------------------------
// World
// ---------------------------------------------------------------------------

type object struct {
	id       int
	label    string
	val      any // *ir.Module (kept as any so this file stays compiler-agnostic)
	base     uint64
	flat     []fp.Entry
	live     bool       // published and monitored
	busyBy   int        // >=0: task running a legitimate in-place mutator on it
	dirty    bool       // currently differs from baseline (already reported)
	dirtyIdx int        // index of the violation that reported it
	lastHash uint64     // fingerprint at the last check while dirty
	lastFlat []fp.Entry // flattening at that check: a further alteration is described relative to it
}

type opState struct {
	started, done bool
	res           proto.OpResult
	raw           []byte // the very slice/string bytes handed to the caller (O-ALIAS)
	rawStr        string
	infoMaps      []any  // maps inside returned reflection data (scribble targets)
	infoVal       any    // the reflection value handed to the caller
	infoHash      uint64 // its deep fingerprint at return time
	scribbled     bool
	modObj        int // module object the op reads (-1 none)
}

type world struct {
	sc        *proto.Scenario
	objs      map[int]*object
	objOrder  []int
	ops       [][]*opState
	backends  []any
	viol      []proto.Violation
	violCount map[string]int
	stats     proto.Stats
	log       strings.Builder
	hlslPrev  map[int]any // per task: previous *hlsl.Options (ReuseOptions)
	// (task, op) pairs that ran since the last invariant evaluation
	sinceMod, sinceGlob []proto.Ref
}

func addRef(l []proto.Ref, t, op int) []proto.Ref {
	for _, r := range l {
		if r.Task == t && r.Op == op {
			return l
		}
	}
	return append(l, proto.Ref{Task: t, Op: op})
}

func (w *world) ran(t, op int) {
	w.sinceMod = addRef(w.sinceMod, t, op)
	w.sinceGlob = addRef(w.sinceGlob, t, op)
}

// culprit names who can have altered an object since the last clean check.
func culprit(since []proto.Ref, t, op int, kind string) (int, int, string, []proto.Ref) {
	if len(since) <= 1 {
		return t, op, kind, nil
	}
	return t, op, "ambiguous", append([]proto.Ref(nil), since...)
}

// Caps are per class, so that a flood of one kind of event can never crowd
// out the record of a module alteration (the judge needs every I-MUT event to
// attribute downstream mismatches to their root cause).
var violationCaps = map[string]int{"I-MUT": 96, "I-GLOBAL": 12, "I-RACE": 12, "I-OPT": 12, "O-ALIAS": 12}

func (w *world) addViolation(v proto.Violation) int {
	if w.violCount == nil {
		w.violCount = map[string]int{}
	}
	limit, ok := violationCaps[v.Class]
	if !ok {
		limit = 12
	}
	if w.violCount[v.Class] >= limit {
		return -1
	}
	w.violCount[v.Class]++
	w.viol = append(w.viol, v)
	emit("viol", v)
	return len(w.viol) - 1
}

func (w *world) publish(id int, label string, val any) {
	o := &object{id: id, label: label, val: val, busyBy: -1}
	o.base = fp.Hash(val)
	o.flat = fp.Flatten(val)
	o.live = true
	if _, ok := w.objs[id]; !ok {
		w.objOrder = append(w.objOrder, id)
	}
	w.objs[id] = o
}

// checkModules evaluates I-MUT on every live module. culprit identifies the
// slice that just ran.
func (w *world) checkModules(t, op int, kind string, midOp bool) {
	w.stats.MonitorRuns++
	for _, id := range w.objOrder {
		o := w.objs[id]
		if !o.live || o.busyBy >= 0 {
			continue
		}
		h := fp.Hash(o.val)
		if h == o.base {
			if o.dirty {
				o.dirty = false
				if o.dirtyIdx >= 0 {
					w.viol[o.dirtyIdx].Healed = true
				}
			}
			continue
		}
		if o.dirty && h == o.lastHash {
			continue
		}
		// first alteration, or altered again (possibly by somebody else)
		// while still differing from its baseline
		o.lastHash = h
		now := fp.Flatten(o.val)
		prev := o.flat
		if o.dirty && o.lastFlat != nil {
			prev = o.lastFlat
		}
		paths, details := fp.Diff(prev, now, 12)
		o.lastFlat = now
		o.dirty = true
		ct, co, ck, sus := culprit(w.sinceMod, t, op, kind)
		o.dirtyIdx = w.addViolation(proto.Violation{
			Class: "I-MUT", Task: ct, Op: co, Kind: ck, Object: o.label, ObjID: o.id, Suspects: sus,
			Paths: paths, Detail: strings.Join(details, "; "), AtStep: simrt.Steps, MidOp: midOp,
		})
	}
}

func (w *world) checkGlobals(t, op int, kind string, midOp bool) {
	for i, g := range simrt.Globals {
		h := fp.Hash(g.Ptr)
		if h == procGlobBase[i] {
			continue
		}
		globalsDirty = true
		synced := false
		for _, sp := range w.sc.SyncPkgs {
			if strings.HasPrefix(g.Name, sp+".") {
				synced = true
			}
		}
		if synced {
			// the owning package uses synchronisation primitives: the write
			// may be properly guarded. Not a finding by itself; the process
			// is retired and outputs keep being compared.
			procGlobBase[i] = h
			procGlobFlat[i] = fp.Flatten(g.Ptr)
			w.stats.SyncedGlobalWrites++
			continue
		}
		paths, details := fp.Diff(procGlobFlat[i], fp.Flatten(g.Ptr), 6)
		for j := range paths {
			paths[j] = g.Name + paths[j]
		}
		ct, co, ck, sus := culprit(w.sinceGlob, t, op, kind)
		w.addViolation(proto.Violation{
			Class: "I-GLOBAL", Task: ct, Op: co, Kind: ck, Suspects: sus, Object: "package-level variable " + g.Name,
			Paths: paths, Detail: strings.Join(details, "; "), AtStep: simrt.Steps, MidOp: midOp,
		})
		// re-baseline so that one write is reported once
		procGlobBase[i] = h
		procGlobFlat[i] = fp.Flatten(g.Ptr)
	}
}

// ---------------------------------------------------------------------------
// Scheduler
// ---------------------------------------------------------------------------

type rng struct{ s uint64 }

func (r *rng) next() uint64 { r.s = simrt.Mix(r.s, 0x5851f42d4c957f2d); return r.s }
func (r *rng) intn(n int) int {
	if n <= 1 {
		return 0
	}
	return int(r.next() % uint64(n))
}
func (r *rng) float() float64 { return float64(r.next()>>11) / (1 << 53) }

type taskState struct {
	t        *simrt.Task
	next     int  // index of the next operation to start (valid when atBound)
	atBound  bool // parked at an operation boundary
	finished bool
	cur      int // operation in progress
}

func runScenario(sc *proto.Scenario, nSites int) (res *proto.Result) {
	res = &proto.Result{Seed: sc.Seed}
	defer func() {
		if r := recover(); r != nil {
			res.Fatal = fmt.Sprintf("worker panic outside any operation: %v\n%s", r, debug.Stack())
		}
	}()
	if nSites <= 0 {
		nSites = 4096
	}
	simrt.ResetRun()
	simrt.Configure(sc.Perm, nSites)
	simrt.EnvSeed = sc.EnvSeed
	if sc.PoolSeed != 0 {
		pr := &rng{s: sc.PoolSeed}
		simrt.PoolChoice = func(n int) int { return pr.intn(n+1) - 1 }
	}
	w := &world{sc: sc, objs: map[int]*object{}, hlslPrev: map[int]any{}}
	for _, bo := range sc.Backends {
		w.backends = append(w.backends, newSpirvBackend(bo))
	}
	w.ops = make([][]*opState, len(sc.Tasks))
	for ti, ops := range sc.Tasks {
		w.ops[ti] = make([]*opState, len(ops))
		for oi := range ops {
			w.ops[ti][oi] = &opState{modObj: -1}
		}
	}

	sched := simrt.NewSched()
	tasks := make([]*taskState, len(sc.Tasks))
	for ti := range sc.Tasks {
		ti := ti
		ts := &taskState{}
		tasks[ti] = ts
		ts.t = sched.Spawn(ti, func(t *simrt.Task) {
			for oi := range sc.Tasks[ti] {
				t.Boundary()
				op := &sc.Tasks[ti][oi]
				st := w.ops[ti][oi]
				t.BeginOp(oi, op.StepLimit)
				st.started = true
				st.res = proto.OpResult{Task: ti, Op: oi, Kind: op.Kind, Start: simrt.Steps}
				emit("start", proto.Ref{Task: ti, Op: oi})
				w.execOp(ti, oi, op, st)
				st.res.Steps = t.OpSteps
				st.res.End = simrt.Steps
				st.res.Done = true
				st.done = true
				ev := st.res
				ev.Dump = nil
				emit("op", ev)
			}
		})
	}
	// bring every task to its first boundary (zero steps)
	for _, ts := range tasks {
		if r := sched.Resume(ts.t, 0); r == simrt.Finished {
			ts.finished = true
		} else {
			ts.atBound = true
		}
		sched.Switches = 0
	}

	depsMet := func(ti int) bool {
		ts := tasks[ti]
		if !ts.atBound {
			return true
		}
		for _, d := range sc.Tasks[ti][ts.next].After {
			if d.Task < 0 || d.Task >= len(w.ops) || d.Op < 0 || d.Op >= len(w.ops[d.Task]) {
				continue
			}
			if !w.ops[d.Task][d.Op].done {
				return false
			}
		}
		return true
	}
	inflightOn := func(obj int, except int) []string {
		var kinds []string
		if obj < 0 {
			return nil
		}
		for ti, ts := range tasks {
			if ti == except || ts.finished || ts.atBound {
				continue
			}
			st := w.ops[ti][ts.cur]
			if st.started && !st.done && st.modObj == obj {
				kinds = append(kinds, sc.Tasks[ti][ts.cur].Kind)
			}
		}
		return kinds
	}

	if sc.Sched.Explicit == nil && sc.Sched.WritePreempt > 0 && len(sc.Tasks) > 1 {
		wr := &rng{s: simrt.Mix(sc.Sched.Seed, 0x77a1)}
		simrt.WriteHook = func() bool { return wr.intn(1000) < sc.Sched.WritePreempt }
	}
	// race detector: happens-before between operations = program order + After edges
	hbMemo := map[[4]int]bool{}
	var hb func(ta, oa, tb, ob int) bool
	hb = func(ta, oa, tb, ob int) bool {
		if ta == tb {
			return oa < ob
		}
		k := [4]int{ta, oa, tb, ob}
		if v, ok := hbMemo[k]; ok {
			return v
		}
		hbMemo[k] = false
		res := false
		// (tb,ob) depends on its predecessor in program order and on its After edges
		if ob > 0 && hb(ta, oa, tb, ob-1) {
			res = true
		}
		if !res && tb < len(sc.Tasks) && ob < len(sc.Tasks[tb]) {
			for _, d := range sc.Tasks[tb][ob].After {
				if (d.Task == ta && d.Op >= oa) || hb(ta, oa, d.Task, d.Op) {
					res = true
					break
				}
			}
		}
		hbMemo[k] = res
		return res
	}
	simrt.HappensBefore = hb
	simrt.RaceExempt = nil
	if len(sc.RaceExemptPkgs) > 0 {
		simrt.RaceExempt = map[uint32]bool{}
		for id, name := range simrt.RaceVarNames() {
			for _, p := range sc.RaceExemptPkgs {
				if strings.HasPrefix(name, p+".") {
					simrt.RaceExempt[id] = true
				}
			}
		}
	}

	sr := &rng{s: simrt.Mix(sc.Sched.Seed, 0xabcdef)}
	if sc.Sched.Explicit == nil && sc.Sched.SyncPreempt > 0 && sc.Sched.MeanQuantum > 0 {
		hr := &rng{s: simrt.Mix(sc.Sched.Seed, 0x5157)}
		simrt.SyncHook = func() bool { return hr.intn(1000) < sc.Sched.SyncPreempt }
	}
	explicit := sc.Sched.Explicit
	useExplicit := explicit != nil
	ei := 0
	sliceNo := 0
	pairSeen := map[string]bool{}
	var switchLog []byte
	stallDone := false
	stride, midChecks := sc.Monitor, 0
	if stride < 1 {
		stride = 1
	}

	for {
		// pick
		var runnable []int
		allDone := true
		for ti, ts := range tasks {
			if ts.finished {
				continue
			}
			allDone = false
			if depsMet(ti) {
				runnable = append(runnable, ti)
			}
		}
		if allDone {
			break
		}
		if len(runnable) == 0 {
			res.Deadlock = true
			break
		}
		pick := -1
		var budget int64
		toBoundary := false
		if useExplicit {
			for ei < len(explicit) {
				e := explicit[ei]
				ei++
				ok := false
				for _, r := range runnable {
					if r == e.Task {
						ok = true
					}
				}
				if !ok {
					continue
				}
				pick, budget, toBoundary = e.Task, e.Steps, e.ToBoundary
				break
			}
			if pick < 0 {
				pick, toBoundary = runnable[0], true
			}
		} else {
			pick = runnable[sr.intn(len(runnable))]
			if sc.Sched.StarveTask > 0 && len(runnable) > 1 && pick == sc.Sched.StarveTask-1 {
				// the starved task only runs when nobody else can
				others := runnable[:0:0]
				for _, r := range runnable {
					if r != pick {
						others = append(others, r)
					}
				}
				pick = others[sr.intn(len(others))]
			}
			mq := sc.Sched.MeanQuantum
			switch {
			case mq <= 0:
				toBoundary = true
			case sc.Sched.Dist == "geometric":
				// inverse-CDF sample of a geometric distribution with mean mq
				u := sr.float()
				if u < 1e-12 {
					u = 1e-12
				}
				budget = 1 + int64(math.Log(u)/math.Log(1-1/float64(mq+1)))
			case sc.Sched.Dist == "stall":
				// mostly long slices, but once per run one task is frozen
				// mid-operation while everybody else runs to completion
				budget = 1 + int64(sr.intn(int(2*mq)))
				if !stallDone && sr.intn(4) == 0 {
					stallDone = true
					sc.Sched.StarveTask = pick + 1
					w.stats.Stalls++
					budget = 1 + int64(sr.intn(int(mq)))
				}
			default:
				budget = 1 + int64(sr.intn(int(2*mq)))
			}
		}
		ts := tasks[pick]
		wasAtBound := ts.atBound
		if wasAtBound {
			ts.cur = ts.next
			ts.atBound = false
			// the op's module object (for overlap statistics)
			op := &sc.Tasks[pick][ts.cur]
			if usesModule(op.Kind) {
				w.ops[pick][ts.cur].modObj = op.Mod
			}
		}
		stepsBefore := ts.t.OpSteps
		if wasAtBound {
			stepsBefore = 0
		}
		if toBoundary {
			budget = 0
		}
		reason := sched.Resume(ts.t, budget)
		opIdx := ts.cur
		ran := int64(ts.t.OpSteps - stepsBefore)
		kind := sc.Tasks[pick][opIdx].Kind
		sl := proto.Slice{Task: pick, Steps: ran, Op: opIdx, Site: ts.t.LastSite &^ simrt.WriteSite}
		switch reason {
		case simrt.AtBoundary:
			sl.ToBoundary = true
			ts.atBound = true
			ts.next = opIdx + 1
		case simrt.Finished:
			sl.ToBoundary = true
			ts.finished = true
		case simrt.Preempted, simrt.Blocked:
			if other := inflightOn(w.ops[pick][opIdx].modObj, pick); len(other) > 0 {
				w.stats.Overlap++
				for _, k := range other {
					p := kind + "|" + k
					if !pairSeen[p] {
						pairSeen[p] = true
						w.stats.Pairs = append(w.stats.Pairs, p)
					}
				}
			}
			switchLog = append(switchLog, byte(pick), byte(opIdx), byte(ts.t.LastSite), byte(ts.t.LastSite>>8))
		}
		res.Schedule = append(res.Schedule, sl)
		sliceNo++
		mid := reason == simrt.Preempted || reason == simrt.Blocked
		// invariants: always at operation boundaries; inside operations at
		// the run's monitor density, thinning out deterministically on very
		// long runs (the stride doubles after every 128 mid-operation checks)
		w.ran(pick, opIdx)
		doCheck := !mid
		if mid && sc.Monitor > 0 && sliceNo%stride == 0 {
			doCheck = true
			midChecks++
			if sc.Monitor > 1 && midChecks%128 == 0 {
				stride *= 2
			}
		}
		if doCheck {
			w.checkModules(pick, opIdx, kind, mid)
			w.sinceMod = w.sinceMod[:0]
			if !mid || w.stats.MonitorRuns%16 == 0 || sc.Monitor == 1 {
				w.checkGlobals(pick, opIdx, kind, mid)
				w.sinceGlob = w.sinceGlob[:0]
			}
		}
		if len(res.Schedule) > 2_000_000 {
			res.Fatal = "schedule too long"
			break
		}
	}

	// end of history: O-ALIAS -- every result still has the bytes it had when
	// it was returned (unless the caller scribbled on it itself).
	for ti := range w.ops {
		for oi, st := range w.ops[ti] {
			if !st.done {
				st.res = proto.OpResult{Task: ti, Op: oi, Kind: sc.Tasks[ti][oi].Kind, Done: false}
			}
			if st.done && !st.scribbled && st.res.OK && st.raw != nil {
				if h := hashBytes(st.raw); h != st.res.OutHash {
					w.addViolation(proto.Violation{Class: "O-ALIAS", Task: ti, Op: oi, Kind: st.res.Kind,
						Object: fmt.Sprintf("result of task %d op %d", ti, oi),
						Detail: "bytes returned earlier were overwritten by a later call: " + st.res.OutHash + " -> " + h,
						AtStep: simrt.Steps})
				}
			}
			if st.done && !st.scribbled && st.res.OK && st.infoVal != nil {
				if h := fp.Hash(st.infoVal); h != st.infoHash {
					w.addViolation(proto.Violation{Class: "O-ALIAS", Task: ti, Op: oi, Kind: st.res.Kind,
						Object: fmt.Sprintf("reflection data of task %d op %d", ti, oi),
						Detail: "reflection data (TranslationInfo) returned earlier was altered by a later call: now " + truncateStr(infoString(st.infoVal), 300) + ", was " + truncateStr(st.res.Info, 300),
						AtStep: simrt.Steps})
				}
			}
			res.Ops = append(res.Ops, st.res)
		}
	}
	for _, rc := range simrt.Races {
		kind := ""
		if rc.Curr.Task < len(sc.Tasks) && rc.Curr.Op < len(sc.Tasks[rc.Curr.Task]) {
			kind = sc.Tasks[rc.Curr.Task][rc.Curr.Op].Kind
		}
		pk := ""
		if rc.Prev.Task < len(sc.Tasks) && rc.Prev.Op < len(sc.Tasks[rc.Prev.Task]) {
			pk = sc.Tasks[rc.Prev.Task][rc.Prev.Op].Kind
		}
		rw := func(w bool) string {
			if w {
				return "write"
			}
			return "read"
		}
		w.addViolation(proto.Violation{Class: "I-RACE", Task: rc.Curr.Task, Op: rc.Curr.Op, Kind: kind,
			Object: "package-level variable " + rc.Name, Paths: []string{rc.Name},
			Detail: fmt.Sprintf("%s by task %d op %d (%s, %d lock(s) held, step %d) and %s by task %d op %d (%s, %d lock(s) held, step %d) are not ordered by happens-before and hold no lock in common",
				rw(rc.Prev.Write), rc.Prev.Task, rc.Prev.Op, pk, len(rc.Prev.Locks), rc.Prev.Step,
				rw(rc.Curr.Write), rc.Curr.Task, rc.Curr.Op, kind, len(rc.Curr.Locks), rc.Curr.Step),
			AtStep: rc.Curr.Step})
	}
	w.stats.Touches = simrt.Touches
	w.stats.WriteYields = simrt.WriteYields
	w.stats.EnvReads = simrt.EnvReads
	w.stats.Steps = simrt.Steps
	w.stats.Slices = len(res.Schedule)
	w.stats.Switches = sched.Switches
	w.stats.MapVisits = trim(simrt.MapVisits)
	w.stats.MapPermuted = trim(simrt.MapPermuted)
	w.stats.PoolGets, w.stats.PoolDrops = simrt.PoolGets, simrt.PoolDrops
	w.stats.SyncPoints = simrt.SyncPoints
	sort.Strings(w.stats.Pairs)
	w.stats.SwitchHash = hashBytes(switchLog)
	res.Stats = w.stats
	res.Violations = w.viol
	res.GlobalsDirty = globalsDirty
	// log hash: schedule + results (+violations) -- what the twin run must reproduce
	lh := sha256.New()
	enc := json.NewEncoder(lh)
	enc.Encode(res.Schedule)
	for _, o := range res.Ops {
		o.Dump = nil
		enc.Encode(o)
	}
	enc.Encode(res.Violations)
	res.LogHash = hex.EncodeToString(lh.Sum(nil)[:12])
	return res
}

func truncateStr(s string, n int) string {
	if len(s) > n {
		return s[:n] + "..."
	}
	return s
}

func trim(a []uint32) []uint32 {
	n := len(a)
	for n > 0 && a[n-1] == 0 {
		n--
	}
	return a[:n]
}

func usesModule(kind string) bool {
	switch kind {
	case proto.OpLower, proto.OpOneshot, proto.OpScribble:
		return false
	}
	return true
}
