package main

import (
	"encoding/json"
	"fmt"
	"math"
	"runtime/debug"
	"sort"
	"strconv"
	"strings"

	"github.com/gogpu/naga"
	"github.com/gogpu/naga/dxil"
	"github.com/gogpu/naga/glsl"
	"github.com/gogpu/naga/hlsl"
	"github.com/gogpu/naga/ir"
	"github.com/gogpu/naga/msl"
	"github.com/gogpu/naga/spirv"
	"github.com/gogpu/naga/zverif/fp"
	"github.com/gogpu/naga/zverif/proto"
	"github.com/gogpu/naga/zverif/simrt"
)

func toSpirvOpts(o proto.SpirvOpts) spirv.Options {
	return spirv.Options{
		Version:                 spirv.Version{Major: o.Version.Major, Minor: o.Version.Minor},
		Debug:                   o.Debug,
		Validation:              o.Validation,
		UseStorageInputOutput16: o.UseStorageInputOutput16,
		ForcePointSize:          o.ForcePointSize,
		AdjustCoordinateSpace:   o.AdjustCoordinateSpace,
		ForceLoopBounding:       o.ForceLoopBounding,
		BoundsCheckPolicies: spirv.BoundsCheckPolicies{
			ImageLoad:  spirv.BoundsCheckPolicy(o.BoundsImageLoad),
			ImageStore: spirv.BoundsCheckPolicy(o.BoundsImageStore),
			Index:      spirv.BoundsCheckPolicy(o.BoundsIndex),
		},
		RayQueryInitTracking: o.RayQueryInitTracking,
	}
}

func newSpirvBackend(o proto.SpirvOpts) any { return spirv.NewBackend(toSpirvOpts(o)) }

func constsToMap(cs []proto.Const) map[string]float64 {
	m := make(map[string]float64, len(cs))
	for _, c := range cs {
		var v float64
		switch c.Value {
		case "NaN":
			v = math.NaN()
		case "+Inf":
			v = math.Inf(1)
		case "-Inf":
			v = math.Inf(-1)
		default:
			v, _ = strconv.ParseFloat(c.Value, 64)
		}
		m[c.Key] = v
	}
	return m
}

func (w *world) module(id int) (*ir.Module, error) {
	o, ok := w.objs[id]
	if !ok || o.val == nil {
		return nil, fmt.Errorf("harness: module object %d does not exist (dependency failed)", id)
	}
	return o.val.(*ir.Module), nil
}

func infoString(v any) string {
	b, err := json.Marshal(v)
	if err != nil {
		return "unmarshalable: " + err.Error()
	}
	return string(b)
}

// execOp runs one operation on the calling task's goroutine. Panics are part
// of the observable behaviour (O-CRASH) and are recorded, not propagated.
func (w *world) execOp(ti, oi int, op *proto.Op, st *opState) {
	defer func() {
		if r := recover(); r != nil {
			if sl, ok := r.(simrt.StepLimit); ok {
				st.res.StepLimit = true
				st.res.Err = fmt.Sprintf("step limit exceeded after %d steps at site %d", sl.Steps, sl.Site)
				return
			}
			stack := cleanStack(string(debug.Stack()))
			st.res.Panic = fmt.Sprintf("%v\n%s", r, stack)
			st.res.OK = false
		}
		// a legitimate in-place mutator finished (or died): re-baseline
		for _, id := range w.objOrder {
			o := w.objs[id]
			if o.busyBy == ti {
				o.busyBy = -1
				o.base = fp.Hash(o.val)
				o.flat = fp.Flatten(o.val)
				o.dirty = false
			}
		}
	}()
	setOut := func(b []byte, err error) {
		if err != nil {
			st.res.Err = err.Error()
			return
		}
		st.res.OK = true
		st.raw = b
		st.res.OutHash = hashBytes(b)
		st.res.OutLen = len(b)
		if w.sc.Dump {
			st.res.Dump = append([]byte(nil), b...)
		}
	}
	setText := func(s string, info any, err error) {
		if err != nil {
			st.res.Err = err.Error()
			return
		}
		st.res.OK = true
		st.rawStr = s
		st.res.OutHash = hashBytes([]byte(s))
		st.res.OutLen = len(s)
		st.res.Info = infoString(info)
		// keep the very value the caller was handed: a later call must not alter it
		st.infoVal = info
		st.infoHash = fp.Hash(info)
		if w.sc.Dump {
			st.res.Dump = []byte(s)
		}
	}
	optCheck := func(label string, opt any, before uint64) {
		if after := fp.Hash(opt); after != before {
			w.addViolation(proto.Violation{Class: "I-OPT", Task: ti, Op: oi, Kind: op.Kind,
				Object: label, Detail: "caller-owned options value was altered by the call", AtStep: simrt.Steps})
		}
	}

	switch op.Kind {
	case proto.OpLower:
		src := w.sc.Sources[op.Src].WGSL
		ast, err := naga.Parse(src)
		if err != nil {
			st.res.Err = err.Error()
			return
		}
		m, err := naga.LowerWithSource(ast, src)
		if err != nil {
			st.res.Err = err.Error()
			return
		}
		st.res.OK = true
		// the IR shape itself is not an output of the property; its
		// fingerprint is recorded for diagnosis only
		st.res.Info = fmt.Sprintf("%016x", fp.Hash(m))
		w.publish(op.Dst, fmt.Sprintf("module#%d(%s)", op.Dst, w.sc.Sources[op.Src].Name), m)

	case proto.OpResolve:
		m, err := w.module(op.Mod)
		if err != nil {
			st.res.Err = err.Error()
			return
		}
		consts := ir.PipelineConstants(constsToMap(op.Consts))
		before := fp.Hash(consts)
		clone := ir.CloneModuleForOverrides(m)
		err = ir.ProcessOverrides(clone, consts)
		optCheck("PipelineConstants", consts, before)
		if err != nil {
			st.res.Err = err.Error()
			return
		}
		st.res.OK = true
		st.res.Info = fmt.Sprintf("%016x", fp.Hash(clone))
		w.publish(op.Dst, fmt.Sprintf("resolved#%d(from %d)", op.Dst, op.Mod), clone)

	case proto.OpSpirvB:
		m, err := w.module(op.Mod)
		if err != nil {
			st.res.Err = err.Error()
			return
		}
		b := w.backends[op.Backend].(*spirv.Backend)
		out, err := b.Compile(m)
		setOut(out, err)

	case proto.OpSpirv:
		m, err := w.module(op.Mod)
		if err != nil {
			st.res.Err = err.Error()
			return
		}
		out, err := naga.GenerateSPIRV(m, toSpirvOpts(*op.Spirv))
		setOut(out, err)

	case proto.OpMSL:
		m, err := w.module(op.Mod)
		if err != nil {
			st.res.Err = err.Error()
			return
		}
		o := op.MSL
		opts := msl.Options{
			LangVersion: msl.Version{Major: o.Version.Major, Minor: o.Version.Minor},
			BoundsCheckPolicies: msl.BoundsCheckPolicies{
				Index: msl.BoundsCheckPolicy(o.BoundsIndex), Buffer: msl.BoundsCheckPolicy(o.BoundsBuffer),
				Image: msl.BoundsCheckPolicy(o.BoundsImage), BindingArray: msl.BoundsCheckPolicy(o.BoundsBindingArray),
			},
			ZeroInitializeWorkgroupMemory: o.ZeroInitWorkgroup,
			ForceLoopBounding:             o.ForceLoopBounding,
			FakeMissingBindings:           o.FakeMissingBindings,
			AllowAndForcePointSize:        o.AllowAndForcePointSize,
		}
		if o.HasConsts {
			opts.PipelineConstants = constsToMap(o.Consts)
		}
		if len(o.PerEP) > 0 {
			opts.PerEntryPointMap = map[string]msl.EntryPointResources{}
			for epi, ep := range o.EPNames {
				res := msl.EntryPointResources{Resources: map[ir.ResourceBinding]msl.BindTarget{}}
				for _, b := range o.PerEP {
					// different slots per entry point, so that picking the wrong
					// entry's table shows in the output
					slot := uint8((int(b.Target) + 7*epi) % 28)
					buf, tex := slot, slot
					res.Resources[ir.ResourceBinding{Group: b.Group, Binding: b.Binding.Binding}] = msl.BindTarget{
						Buffer: &buf, Texture: &tex, Sampler: &msl.BindSamplerTarget{Slot: slot}, Mutable: true}
				}
				sz := uint8(29)
				res.SizesBuffer = &sz
				pcb := uint8(30)
				res.PushConstantBuffer = &pcb
				opts.PerEntryPointMap[ep] = res
			}
		}
		before := fp.Hash(&opts)
		var text string
		var info msl.TranslationInfo
		if o.UsePipeline {
			p := msl.PipelineOptions{AllowAndForcePointSize: o.AllowAndForcePointSize}
			if o.EntryPoint != "" {
				p.EntryPoint = &msl.EntryPointSelector{Stage: ir.ShaderStage(o.EPStage), Name: o.EntryPoint}
			}
			text, info, err = msl.CompileWithPipeline(m, opts, p)
		} else {
			text, info, err = msl.Compile(m, opts)
		}
		optCheck("msl.Options", &opts, before)
		if err == nil {
			st.infoMaps = append(st.infoMaps, info.EntryPointNames)
		}
		setText(text, info, err)

	case proto.OpGLSL:
		m, err := w.module(op.Mod)
		if err != nil {
			st.res.Err = err.Error()
			return
		}
		o := op.GLSL
		opts := glsl.Options{
			LangVersion:        glsl.Version{Major: o.Version.Major, Minor: o.Version.Minor, ES: o.Version.ES},
			EntryPoint:         o.EntryPoint,
			SamplerBindingBase: o.SamplerBase, TextureBindingBase: o.TextureBase,
			UniformBindingBase: o.UniformBase, StorageBindingBase: o.StorageBase,
			WriterFlags:        glsl.WriterFlags(o.WriterFlags),
			ForceHighPrecision: o.ForceHighPrecision,
			BoundsCheckPolicies: glsl.BoundsCheckPolicies{
				ImageLoad: glsl.BoundsCheckPolicy(o.BoundsImageLoad), ImageStore: glsl.BoundsCheckPolicy(o.BoundsImageStore),
			},
		}
		if len(o.BindingMap) > 0 {
			opts.BindingMap = map[glsl.BindingMapKey]uint8{}
			for _, b := range o.BindingMap {
				opts.BindingMap[glsl.BindingMapKey{Group: b.Group, Binding: b.Binding.Binding}] = uint8(b.Target)
			}
		}
		if o.HasConsts {
			opts.PipelineConstants = ir.PipelineConstants(constsToMap(o.Consts))
		}
		before := fp.Hash(&opts)
		text, info, err := glsl.Compile(m, opts)
		optCheck("glsl.Options", &opts, before)
		if err == nil {
			st.infoMaps = append(st.infoMaps, info.EntryPointNames, info.TextureMappings)
		}
		setText(text, info, err)

	case proto.OpHLSL:
		m, err := w.module(op.Mod)
		if err != nil {
			st.res.Err = err.Error()
			return
		}
		o := op.HLSL
		// The caller's options object. With ReuseOptions the caller keeps ONE
		// *hlsl.Options for all its calls and edits it in between (same
		// pointer, new field values and tables).
		fresh := &hlsl.Options{
			ShaderModel:                   hlsl.ShaderModel(o.ShaderModel),
			BindingMap:                    map[hlsl.ResourceBinding]hlsl.BindTarget{},
			FakeMissingBindings:           o.FakeMissingBindings,
			ZeroInitializeWorkgroupMemory: o.ZeroInitWorkgroup,
			RestrictIndexing:              o.RestrictIndexing,
			ForceLoopBounding:             o.ForceLoopBounding,
			EntryPoint:                    o.EntryPoint,
			SamplerHeapTargets: hlsl.SamplerHeapBindTargets{
				StandardSamplers:   hlsl.BindTarget{Space: 0, Register: 0},
				ComparisonSamplers: hlsl.BindTarget{Space: 1, Register: 0},
			},
		}
		for _, b := range o.BindingMap {
			fresh.BindingMap[hlsl.ResourceBinding{Group: b.Group, Binding: b.Binding.Binding}] = hlsl.BindTarget{Space: uint8(b.Space), Register: b.Target}
		}
		if o.SpecialConstants {
			fresh.SpecialConstantsBinding = &hlsl.BindTarget{Space: 7, Register: 3}
		}
		if o.SamplerBufferMap {
			fresh.SamplerBufferBindingMap = map[uint32]hlsl.BindTarget{0: {Space: 4, Register: 0}, 1: {Space: 4, Register: 1}, 2: {Space: 4, Register: 2}}
		}
		if o.DynOffsets {
			fresh.DynamicStorageBufferOffsetsTargets = map[uint32]hlsl.OffsetsBindTarget{0: {Space: 5, Register: 0, Size: 2}, 1: {Space: 5, Register: 1, Size: 1}}
		}
		opts := fresh
		if prev, ok := w.hlslPrev[ti]; ok && o.ReuseOptions {
			opts = prev.(*hlsl.Options)
			*opts = *fresh
		}
		w.hlslPrev[ti] = opts
		before := fp.Hash(opts)
		text, info, err := hlsl.Compile(m, opts)
		optCheck("*hlsl.Options", opts, before)
		if err == nil && info != nil {
			st.infoMaps = append(st.infoMaps, info.EntryPointNames, info.RegisterBindings)
		}
		setText(text, info, err)

	case proto.OpDXIL:
		m, err := w.module(op.Mod)
		if err != nil {
			st.res.Err = err.Error()
			return
		}
		o := op.DXIL
		opts := dxil.Options{ShaderModel: dxil.ShaderModel{Major: 6, Minor: o.SMMinor}, UseBypassHash: o.UseBypassHash}
		if len(o.BindingMap) > 0 {
			opts.BindingMap = dxil.BindingMap{}
			for _, b := range o.BindingMap {
				opts.BindingMap[dxil.BindingLocation{Group: b.Group, Binding: b.Binding.Binding}] = dxil.BindTarget{Space: b.Space, Register: b.Target}
			}
		}
		if o.SamplerHeap {
			opts.SamplerHeapTargets = &dxil.SamplerHeapBindTargets{
				StandardSamplers:   dxil.BindTarget{Space: 2, Register: 0},
				ComparisonSamplers: dxil.BindTarget{Space: 3, Register: 0},
			}
		}
		if o.SamplerBufferMap {
			opts.SamplerBufferBindingMap = map[uint32]dxil.BindTarget{0: {Space: 9, Register: 0}, 1: {Space: 9, Register: 1}, 2: {Space: 9, Register: 2}}
		}
		before := fp.Hash(&opts)
		out, err := dxil.Compile(m, opts)
		optCheck("dxil.Options", &opts, before)
		setOut(out, err)

	case proto.OpValidate:
		m, err := w.module(op.Mod)
		if err != nil {
			st.res.Err = err.Error()
			return
		}
		errs, err := ir.Validate(m)
		if err != nil {
			st.res.Err = err.Error()
			return
		}
		st.res.OK = true
		st.res.Info = fmt.Sprintf("%d validation errors", len(errs))

	case proto.OpOneshot:
		o := op.Oneshot
		out, err := naga.CompileWithOptions(w.sc.Sources[op.Src].WGSL, naga.CompileOptions{
			SPIRVVersion: spirv.Version{Major: o.Version.Major, Minor: o.Version.Minor}, Debug: o.Debug, Validate: o.Validate})
		setOut(out, err)

	case proto.OpCompact, proto.OpInline:
		m, err := w.module(op.Mod)
		if err != nil {
			st.res.Err = err.Error()
			return
		}
		w.objs[op.Mod].busyBy = ti
		if op.Kind == proto.OpCompact {
			passes := op.Passes
			if len(passes) == 0 {
				passes = []string{"unused"}
			}
			for _, ps := range passes {
				switch ps {
				case "unused":
					ir.CompactUnused(m)
				case "types":
					ir.CompactTypes(m)
				case "reorder":
					ir.ReorderTypes(m)
				case "constants":
					ir.CompactConstants(m)
				case "expressions":
					ir.CompactExpressions(m)
				case "dedup":
					ir.DeduplicateEmits(m)
				}
			}
		} else {
			if err := ir.InlineUserFunctions(m, func(*ir.Function) bool { return true }); err != nil {
				st.res.Err = err.Error()
				return
			}
		}
		st.res.OK = true
		st.res.Info = fmt.Sprintf("%016x", fp.Hash(m))

	case proto.OpClone:
		m, err := w.module(op.Mod)
		if err != nil {
			st.res.Err = err.Error()
			return
		}
		c := ir.CloneModule(m)
		st.res.OK = true
		st.res.Info = fmt.Sprintf("%016x", fp.Hash(c))
		w.publish(op.Dst, fmt.Sprintf("clone#%d(of %d)", op.Dst, op.Mod), c)

	case proto.OpResolveInPlace:
		m, err := w.module(op.Mod)
		if err != nil {
			st.res.Err = err.Error()
			return
		}
		w.objs[op.Mod].busyBy = ti
		before := fp.Hash(m)
		flatBefore := fp.Flatten(m)
		consts := ir.PipelineConstants(constsToMap(op.Consts))
		optBefore := fp.Hash(consts)
		err = ir.ProcessOverrides(m, consts)
		optCheck("PipelineConstants", consts, optBefore)
		if err != nil {
			st.res.Err = err.Error()
			// the working copy is private to this caller: elements beyond a
			// slice's length are not part of its value (nobody else can reach
			// them), so only the visible value is compared
			visible := func(es []fp.Entry) []fp.Entry {
				out := make([]fp.Entry, 0, len(es))
				for _, e := range es {
					if !strings.HasSuffix(e.Path, ".spare-capacity") {
						out = append(out, e)
					}
				}
				return out
			}
			if fp.Hash(m) != before {
				paths, details := fp.Diff(visible(flatBefore), visible(fp.Flatten(m)), 12)
				if len(paths) == 0 {
					return
				}
				w.addViolation(proto.Violation{Class: "I-MUT", Task: ti, Op: oi, Kind: op.Kind, Object: w.objs[op.Mod].label, ObjID: -1000 - op.Mod,
					Paths: paths, AtStep: simrt.Steps,
					Detail: "a FAILED in-place resolution (" + err.Error() + ") left the caller's module altered: " + strings.Join(details, "; ")})
			}
			return
		}
		st.res.OK = true
		st.res.Info = fmt.Sprintf("%016x", fp.Hash(m))

	case proto.OpScribble:
		if op.Target == nil || op.Target.Task >= len(w.ops) || op.Target.Op >= len(w.ops[op.Target.Task]) {
			st.res.Err = "harness: bad scribble target"
			return
		}
		tgt := w.ops[op.Target.Task][op.Target.Op]
		n := 0
		if tgt.done && tgt.raw != nil {
			for i := range tgt.raw {
				tgt.raw[i] ^= 0xa5
			}
			n += len(tgt.raw)
		}
		for _, mm := range tgt.infoMaps {
			switch x := mm.(type) {
			case map[string]string:
				keys := make([]string, 0, len(x))
				for k := range x {
					keys = append(keys, k)
				}
				sort.Strings(keys)
				for _, k := range keys {
					x[k] = "SCRIBBLED"
					n++
				}
				x["__scribble__"] = "x"
			case map[string]glsl.TextureMapping:
				x["__scribble__"] = glsl.TextureMapping{}
				n++
			}
		}
		tgt.scribbled = true
		st.res.OK = true
		st.res.Info = fmt.Sprintf("scribbled %d", n)

	default:
		st.res.Err = "harness: unknown op kind " + op.Kind
	}
}

// cleanStack keeps function names and file:line of the frames below the
// panic and drops everything that varies between processes (goroutine ids,
// argument words, pointers, pc offsets), so that a recorded panic is
// comparable between two runs.
func cleanStack(stack string) string {
	lines := strings.Split(stack, "\n")
	var out []string
	seenPanic := false
	for _, l := range lines {
		if !seenPanic {
			if strings.HasPrefix(l, "panic(") {
				seenPanic = true
			}
			continue
		}
		if strings.HasPrefix(l, "\t") {
			l = strings.TrimSpace(l)
			if i := strings.Index(l, " +0x"); i >= 0 {
				l = l[:i]
			}
			if i := strings.LastIndex(l, "/src/"); i >= 0 && strings.Contains(l, "naga-") {
				l = l[i+5:]
			}
			if len(out) > 0 {
				out[len(out)-1] += " @ " + l
			}
			continue
		}
		if i := strings.LastIndexByte(l, '('); i > 0 {
			l = l[:i]
		}
		if strings.Contains(l, "zverif/worker") || strings.HasPrefix(l, "runtime.") || strings.HasPrefix(l, "created by") {
			if strings.Contains(l, "zverif/worker") {
				break
			}
			out = append(out, l)
			continue
		}
		out = append(out, l)
		if len(out) >= 12 {
			break
		}
	}
	return strings.Join(out, "\n")
}

func describe(s proto.Source) (mi proto.ModuleInfo) {
	mi.Name = s.Name
	defer func() {
		if r := recover(); r != nil {
			mi.LowerErr = fmt.Sprintf("panic: %v", r)
		}
	}()
	before := simrt.Steps
	ast, err := naga.Parse(s.WGSL)
	if err != nil {
		mi.LowerErr = err.Error()
		return
	}
	m, err := naga.LowerWithSource(ast, s.WGSL)
	if err != nil {
		mi.LowerErr = err.Error()
		return
	}
	mi.LowerSteps = simrt.Steps - before
	for _, ep := range m.EntryPoints {
		mi.EntryPoints = append(mi.EntryPoints, proto.EntryPointInfo{Name: ep.Name, Stage: int(ep.Stage)})
	}
	seen := map[proto.Binding]bool{}
	for _, g := range m.GlobalVariables {
		if g.Binding != nil {
			b := proto.Binding{Group: g.Binding.Group, Binding: g.Binding.Binding}
			if !seen[b] {
				seen[b] = true
				mi.Bindings = append(mi.Bindings, b)
			}
		}
	}
	for _, ov := range m.Overrides {
		oi := proto.OverrideInfo{Name: ov.Name, ID: -1, HasDefault: ov.Init != nil}
		if ov.ID != nil {
			oi.ID = int(*ov.ID)
		}
		if int(ov.Ty) < len(m.Types) {
			oi.Type = fmt.Sprintf("%T%v", m.Types[ov.Ty].Inner, m.Types[ov.Ty].Inner)
		}
		mi.Overrides = append(mi.Overrides, oi)
	}
	mi.Functions = len(m.Functions)
	return
}
