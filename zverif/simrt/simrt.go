// Package simrt is the runtime half of the deterministic simulator for
// gogpu/naga (see /verif/DESIGN.md §3.2).
//
// The instrumenter (verif/instrument) inserts simrt.Yield(site) at the top of
// every function body, function literal and loop body of the compiler, and
// rewrites every `range m` over a map into `range simrt.RangeMap(m, site)`.
// Together these two seams put the only two sources of nondeterminism the
// library can meet -- which caller goroutine runs next, and the order in which
// a map is walked -- under the control of the harness.
//
// Concurrency model: every simulated caller ("task") is a real goroutine, but
// exactly one goroutine (a task, or the scheduler) holds the run token at any
// time; everybody else is parked on a channel.  The token is handed over only
// inside Yield (pre-emption), Boundary (between operations) and at task exit,
// always through a channel operation, so all package state below is accessed
// by one goroutine at a time with a happens-before edge between accesses.
//
// Nothing in this package reads a clock, draws from a global RNG or iterates a
// map.  The only notion of time is Steps, the number of Yield calls so far.
package simrt

import (
	"encoding/binary"
	"fmt"
	"iter"
	"math"
	"reflect"
	"sort"

	"github.com/gogpu/naga/zverif/fp"
)

// ---------------------------------------------------------------------------
// Logical clock and tasks
// ---------------------------------------------------------------------------

// Steps is the global logical clock: the number of Yield calls executed so far
// by anybody (tasks and un-scheduled set-up code alike).
var Steps uint64

// cur is the task that currently holds the run token (nil: the scheduler or
// plain sequential code holds it).
var cur *Task

// Reason says why a task handed the token back to the scheduler.
type Reason int

const (
	Preempted  Reason = iota // budget exhausted inside an operation
	AtBoundary               // task called Boundary (between two operations)
	Finished                 // task body returned
)

func (r Reason) String() string {
	switch r {
	case Preempted:
		return "preempt"
	case AtBoundary:
		return "boundary"
	case Finished:
		return "finished"
	}
	return "?"
}

// StepLimit is the panic value raised by Yield when an operation exceeds the
// step cap the harness gave it (bounded-progress invariant I-LIVE).
type StepLimit struct {
	Steps uint64
	Site  uint32
}

// Task is one simulated caller goroutine.
type Task struct {
	ID       int
	wake     chan struct{}
	sched    *Sched
	Budget   int64  // steps left in the current slice
	OpSteps  uint64 // steps executed by the current operation
	OpLimit  uint64 // cap for OpSteps (0 = none)
	OpSeq    int    // index of the current operation within the task
	LastSite uint32 // site of the last Yield (where a pre-emption landed)
	visits   uint32 // map-range visits inside the current operation
	locks    []any  // cooperative locks held (and Once objects passed), for the race detector
	Done     bool
}

// Sched owns the run token.
type Sched struct {
	back  chan Reason
	tasks []*Task
	// Switches counts token hand-overs that happened inside an operation
	// (pre-emptions), as opposed to at operation boundaries.
	Switches uint64
}

func NewSched() *Sched { return &Sched{back: make(chan Reason)} }

// Spawn creates a parked task.  body runs on its own goroutine the first time
// the task is resumed.
func (s *Sched) Spawn(id int, body func(t *Task)) *Task {
	t := &Task{ID: id, wake: make(chan struct{}), sched: s}
	s.tasks = append(s.tasks, t)
	go func() {
		<-t.wake
		body(t)
		t.Done = true
		cur = nil
		s.back <- Finished
	}()
	return t
}

// Resume hands the token to t for at most budget steps (budget<=0: until the
// next operation boundary) and blocks until t hands it back.
func (s *Sched) Resume(t *Task, budget int64) Reason {
	if t.Done {
		panic("simrt: resume of finished task")
	}
	if budget <= 0 {
		budget = 1 << 62
	}
	t.Budget = budget
	cur = t
	t.wake <- struct{}{}
	r := <-s.back
	cur = nil
	if r == Preempted {
		s.Switches++
	}
	return r
}

// Boundary is called by a task body between two operations.  It always hands
// the token back, so the scheduler observes every operation boundary.
func (t *Task) Boundary() {
	cur = nil
	t.sched.back <- AtBoundary
	<-t.wake
	cur = t
}

// BeginOp resets the per-operation counters.
func (t *Task) BeginOp(seq int, limit uint64) {
	t.OpSeq = seq
	t.OpSteps = 0
	t.OpLimit = limit
	t.visits = 0
}

// Current returns the task holding the token, or nil.
func Current() *Task { return cur }

// YieldSites counts executions per yield site when non-nil (coverage probe;
// sized by the harness from the instrumenter's site count).
var YieldSites []uint32

// WriteSite is OR-ed into the site id of yields that sit right before a
// statement writing through a selector, index or pointer.
const WriteSite = 1 << 31

// WriteHook, when set by the harness, is asked at every such yield whether the
// running task should be pre-empted right there: the instants just before a
// write to possibly shared memory are where "write, ..., write back" windows
// open and close.
var WriteHook func() bool

// WriteYields counts executed write-yields (coverage statistic).
var WriteYields uint64

// Yield is the scheduling seam.  Inserted by the instrumenter; never called by
// hand.
func Yield(site uint32) {
	Steps++
	t := cur
	if t == nil {
		return
	}
	t.OpSteps++
	t.LastSite = site
	if t.OpLimit != 0 && t.OpSteps > t.OpLimit {
		panic(StepLimit{Steps: t.OpSteps, Site: site})
	}
	t.Budget--
	if site&WriteSite != 0 {
		WriteYields++
		if t.Budget > 0 && (WriteHook == nil || !WriteHook()) {
			return
		}
	} else if t.Budget > 0 {
		return
	}
	cur = nil
	t.sched.back <- Preempted
	<-t.wake
	cur = t
}

// ---------------------------------------------------------------------------
// Map-iteration seam
// ---------------------------------------------------------------------------

// Perm modes.
const (
	PermCanonical = "canonical" // ascending key order
	PermReverse   = "reverse"   // descending key order
	PermRotate    = "rotate"    // canonical order rotated by K (what the Go runtime does to small maps)
	PermRandom    = "random"    // a fresh pseudo-random permutation per visit
)

// PermSpec is the per-run map-order fault.
type PermSpec struct {
	Mode  string   `json:"mode"`
	Seed  uint64   `json:"seed,omitempty"`
	K     int      `json:"k,omitempty"`
	Sites []uint32 `json:"sites,omitempty"` // nil/empty with All=false: no site permuted
	All   bool     `json:"all,omitempty"`
}

var (
	permMode  = PermCanonical
	permSeed  uint64
	permK     int
	permAll   bool
	permSites []bool // indexed by site id

	// MapVisits[site]   = visits of that site with >= 2 entries.
	// MapPermuted[site] = those on which a non-identity order was applied.
	MapVisits   []uint32
	MapPermuted []uint32
	setupVisits uint32
)

// ResetRun puts the runtime back into its start-of-process state (a serving
// worker executes many scenarios, one after the other).
func ResetRun() {
	Steps = 0
	cur = nil
	setupVisits = 0
	PoolGets, PoolDrops, SyncPoints = 0, 0, 0
	PoolChoice = func(n int) int { return n - 1 }
	SyncHook = nil
	WriteHook = nil
	WriteYields = 0
	EnvSeed, EnvReads, randState = 0, 0, 0
	DrainPools()
	resetRaces()
}

// Configure installs the map-order fault for this process. nSites is the
// number of map sites reported by the instrumenter (ids are 1..nSites).
func Configure(p PermSpec, nSites int) {
	permMode = p.Mode
	if permMode == "" {
		permMode = PermCanonical
	}
	permSeed = p.Seed
	permK = p.K
	permAll = p.All
	permSites = make([]bool, nSites+1)
	for _, s := range p.Sites {
		if int(s) < len(permSites) {
			permSites[s] = true
		}
	}
	MapVisits = make([]uint32, nSites+1)
	MapPermuted = make([]uint32, nSites+1)
}

// Mix is splitmix64 over a pair; the only hash used to derive sub-seeds.
func Mix(a, b uint64) uint64 {
	z := a + 0x9e3779b97f4a7c15*(b+1)
	z = (z ^ (z >> 30)) * 0xbf58476d1ce4e5b9
	z = (z ^ (z >> 27)) * 0x94d049bb133111eb
	return z ^ (z >> 31)
}

// RangeMap walks m in an order chosen by the simulator.  It is a legal
// refinement of the Go specification for `range` over a map: keys are
// snapshotted when the loop starts, each key is looked up again right before
// it is produced (so entries deleted meanwhile are skipped), and entries added
// during the loop are not produced.
func RangeMap[K comparable, V any](m map[K]V, site uint32) iter.Seq2[K, V] {
	return func(yield func(K, V) bool) {
		n := len(m)
		if n == 0 {
			return
		}
		keys := make([]K, 0, n)
		for k := range m {
			keys = append(keys, k)
		}
		if n > 1 {
			canonicalise(keys)
			permute(keys, site)
		}
		for _, k := range keys {
			v, ok := m[k]
			if !ok {
				continue
			}
			if !yield(k, v) {
				return
			}
		}
	}
}

func canonicalise[K comparable](keys []K) {
	kind := reflect.TypeOf(keys[0]).Kind()
	switch kind {
	case reflect.Uint, reflect.Uint8, reflect.Uint16, reflect.Uint32, reflect.Uint64, reflect.Uintptr:
		type kv struct {
			u uint64
			k K
		}
		tmp := make([]kv, len(keys))
		for i, k := range keys {
			tmp[i] = kv{reflect.ValueOf(k).Uint(), k}
		}
		sort.Slice(tmp, func(i, j int) bool { return tmp[i].u < tmp[j].u })
		for i := range tmp {
			keys[i] = tmp[i].k
		}
	case reflect.Int, reflect.Int8, reflect.Int16, reflect.Int32, reflect.Int64:
		type kv struct {
			u int64
			k K
		}
		tmp := make([]kv, len(keys))
		for i, k := range keys {
			tmp[i] = kv{reflect.ValueOf(k).Int(), k}
		}
		sort.Slice(tmp, func(i, j int) bool { return tmp[i].u < tmp[j].u })
		for i := range tmp {
			keys[i] = tmp[i].k
		}
	default:
		type kv struct {
			s string
			k K
		}
		tmp := make([]kv, len(keys))
		for i, k := range keys {
			tmp[i] = kv{string(encodeKey(nil, reflect.ValueOf(k), true)), k}
		}
		sort.Slice(tmp, func(i, j int) bool { return tmp[i].s < tmp[j].s })
		for i := range tmp {
			keys[i] = tmp[i].k
		}
	}
}

// encodeKey produces an injective byte encoding whose lexicographic order is a
// total order on keys (natural order for integers and for top-level strings).
func encodeKey(b []byte, v reflect.Value, top bool) []byte {
	switch v.Kind() {
	case reflect.Bool:
		if v.Bool() {
			return append(b, 1)
		}
		return append(b, 0)
	case reflect.Uint, reflect.Uint8, reflect.Uint16, reflect.Uint32, reflect.Uint64, reflect.Uintptr:
		return binary.BigEndian.AppendUint64(b, v.Uint())
	case reflect.Int, reflect.Int8, reflect.Int16, reflect.Int32, reflect.Int64:
		return binary.BigEndian.AppendUint64(b, uint64(v.Int())^(1<<63))
	case reflect.String:
		if top {
			return append(b, v.String()...)
		}
		b = binary.BigEndian.AppendUint64(b, uint64(v.Len()))
		return append(b, v.String()...)
	case reflect.Struct:
		for i := 0; i < v.NumField(); i++ {
			b = encodeKey(b, v.Field(i), false)
		}
		return b
	case reflect.Array:
		for i := 0; i < v.Len(); i++ {
			b = encodeKey(b, v.Index(i), false)
		}
		return b
	case reflect.Float32, reflect.Float64:
		return binary.BigEndian.AppendUint64(b, math.Float64bits(v.Float()))
	case reflect.Pointer:
		// addresses differ between processes: order pointer keys by the deep
		// fingerprint of what they point to (ties keep an arbitrary order)
		if v.IsNil() {
			return binary.BigEndian.AppendUint64(b, 0)
		}
		return binary.BigEndian.AppendUint64(b, fp.Hash(v.Interface()))
	case reflect.Interface:
		if v.IsNil() {
			return append(b, 0)
		}
		e := v.Elem()
		b = append(b, e.Type().String()...)
		b = append(b, 0)
		return encodeKey(b, e, false)
	}
	panic(fmt.Sprintf("simrt: unsupported map key kind %s (%s): extend simrt.encodeKey", v.Kind(), v.Type()))
}

func permute[K any](keys []K, site uint32) {
	if int(site) < len(MapVisits) {
		MapVisits[site]++
	}
	if permMode == PermCanonical {
		return
	}
	if !permAll && (int(site) >= len(permSites) || !permSites[site]) {
		return
	}
	n := len(keys)
	switch permMode {
	case PermReverse:
		for i, j := 0, n-1; i < j; i, j = i+1, j-1 {
			keys[i], keys[j] = keys[j], keys[i]
		}
	case PermRotate:
		k := permK % n
		if k < 0 {
			k += n
		}
		if k == 0 {
			k = 1
		}
		rot := make([]K, 0, n)
		rot = append(rot, keys[k:]...)
		rot = append(rot, keys[:k]...)
		copy(keys, rot)
	case PermRandom:
		// The stream depends only on (seed, site, task, operation, visit
		// number within the operation): independent of the schedule, so a
		// schedule can be shrunk without changing the orders an operation sees.
		var tid, op, vis uint64
		if t := cur; t != nil {
			tid, op, vis = uint64(t.ID)+1, uint64(t.OpSeq), uint64(t.visits)
			t.visits++
		} else {
			vis = uint64(setupVisits)
			setupVisits++
		}
		s := Mix(Mix(Mix(Mix(permSeed, uint64(site)), tid), op), vis)
		identity := true
		for i := n - 1; i > 0; i-- {
			s = Mix(s, uint64(i))
			j := int(s % uint64(i+1))
			if j != i {
				identity = false
			}
			keys[i], keys[j] = keys[j], keys[i]
		}
		if identity {
			return
		}
	default:
		panic("simrt: unknown permutation mode " + permMode)
	}
	if int(site) < len(MapPermuted) {
		MapPermuted[site]++
	}
}
