package simrt

// Latent seams.  gogpu/naga uses no synchronisation primitives today; the
// instrumenter redirects sync.Mutex, sync.RWMutex, sync.Once and sync.Pool to
// the cooperative versions below so that a tree that starts using them stays
// simulable: a task that would block hands the token back instead of blocking
// the (single) running OS-level flow, and a Pool's legal freedom to drop or
// reorder items becomes a simulator decision.

// Blocked is returned by Resume when the task could not make progress because
// it waits for a lock held by another task.
const Blocked Reason = 100

func block() {
	t := cur
	if t == nil {
		panic("simrt: sequential code would block forever on a lock")
	}
	Steps++
	cur = nil
	t.sched.back <- Blocked
	<-t.wake
	cur = t
}

// SyncHook, when set by the harness, is asked at every synchronisation point
// whether the running task should be pre-empted right there (synchronisation
// operations are where interleavings matter most; the window between an
// Unlock and the caller's next instruction contains no Yield of its own).
var SyncHook func() bool

// SyncPoints counts synchronisation operations executed (fault statistics).
var SyncPoints uint64

// syncPoint is a scheduling point like Yield, placed inside the cooperative
// primitives themselves.
func syncPoint() {
	SyncPoints++
	Steps++
	t := cur
	if t == nil {
		return
	}
	t.OpSteps++
	t.LastSite = 0
	t.Budget--
	if t.Budget > 0 && (SyncHook == nil || !SyncHook()) {
		return
	}
	cur = nil
	t.sched.back <- Preempted
	<-t.wake
	cur = t
}

type Mutex struct{ locked bool }

func (m *Mutex) Lock() {
	syncPoint()
	for m.locked {
		block()
	}
	m.locked = true
	if cur != nil {
		cur.hold(m)
	}
}
func (m *Mutex) TryLock() bool {
	if m.locked {
		return false
	}
	m.locked = true
	if cur != nil {
		cur.hold(m)
	}
	return true
}
func (m *Mutex) Unlock() {
	if !m.locked {
		panic("sync: unlock of unlocked mutex")
	}
	m.locked = false
	if cur != nil {
		cur.release(m)
	}
	syncPoint()
}

type RWMutex struct {
	writer  bool
	readers int
}

func (m *RWMutex) Lock() {
	syncPoint()
	for m.writer || m.readers > 0 {
		block()
	}
	m.writer = true
	if cur != nil {
		cur.hold(m)
	}
}
func (m *RWMutex) Unlock() {
	if !m.writer {
		panic("sync: Unlock of unlocked RWMutex")
	}
	m.writer = false
	if cur != nil {
		cur.release(m)
	}
	syncPoint()
}
func (m *RWMutex) RLock() {
	syncPoint()
	for m.writer {
		block()
	}
	m.readers++
	if cur != nil {
		cur.hold(m)
	}
}
func (m *RWMutex) RUnlock() {
	if m.readers <= 0 {
		panic("sync: RUnlock of unlocked RWMutex")
	}
	m.readers--
	if cur != nil {
		cur.release(m)
	}
	syncPoint()
}
func (m *RWMutex) TryLock() bool {
	if m.writer || m.readers > 0 {
		return false
	}
	m.writer = true
	return true
}
func (m *RWMutex) TryRLock() bool {
	if m.writer {
		return false
	}
	m.readers++
	return true
}

type Once struct {
	done, running bool
}

func (o *Once) Do(f func()) {
	syncPoint()
	// the return of any Do call happens after the completion of f: model it
	// as a lock that every task passing through Do holds from then on
	if cur != nil {
		held := false
		for _, l := range cur.locks {
			if l == any(o) {
				held = true
			}
		}
		if !held {
			cur.hold(o)
		}
	}
	if o.done {
		return
	}
	for o.running {
		block()
	}
	if o.done {
		return
	}
	o.running = true
	defer func() { o.running = false; o.done = true }()
	f()
}

// PoolChoice decides what Pool.Get returns when the pool holds n>0 items:
// an index in [0,n) or -1 for "pretend the GC emptied the pool".  The harness
// installs a PRNG-driven function; the default is LIFO like the real thing
// usually behaves.
var PoolChoice = func(n int) int { return n - 1 }

// PoolGets / PoolDrops count pool decisions (fault statistics).
var PoolGets, PoolDrops uint64

type Pool struct {
	New        func() any
	items      []any
	registered bool
}

// pools lists every Pool that ever held an item, so that the harness can
// empty them between scenarios (one scenario = one world: what a pool retains
// is process history, which a scenario must create itself to observe).
var pools []*Pool

// DrainPools empties every pool (legal at any time: the GC may do the same).
func DrainPools() {
	for _, p := range pools {
		p.items = nil
	}
}

func (p *Pool) Get() any {
	syncPoint()
	PoolGets++
	if n := len(p.items); n > 0 {
		i := PoolChoice(n)
		if i < 0 || i >= n {
			PoolDrops++
			p.items = nil
		} else {
			x := p.items[i]
			p.items = append(p.items[:i], p.items[i+1:]...)
			return x
		}
	}
	if p.New != nil {
		return p.New()
	}
	return nil
}

func (p *Pool) Put(x any) {
	if x == nil {
		return
	}
	if !p.registered {
		p.registered = true
		pools = append(pools, p)
	}
	p.items = append(p.items, x)
	syncPoint()
}

// ---------------------------------------------------------------------------
// Package-level state registry (filled by generated zz_simrt_globals.go)
// ---------------------------------------------------------------------------

type Global struct {
	Name string
	Ptr  any // pointer to the variable
}

var Globals []Global

func RegisterGlobal(name string, ptr any) { Globals = append(Globals, Global{name, ptr}) }
