package simrt

// Latent seams.  gogpu/naga uses no synchronisation primitives today; the
// instrumenter redirects sync.Mutex, sync.RWMutex, sync.Once and sync.Pool to
// the cooperative versions below so that a tree that starts using them stays
// simulable: a task that would block hands the token back instead of blocking
// the (single) running OS-level flow, and a Pool's legal freedom to drop or
// reorder items becomes a simulator decision.

// Blocked is returned by Resume when the task could not make progress because
// it waits for a lock held by another task.
const Blocked Reason = 100

func block() {
	t := cur
	if t == nil {
		panic("simrt: sequential code would block forever on a lock")
	}
	Steps++
	cur = nil
	t.sched.back <- Blocked
	<-t.wake
	cur = t
}

type Mutex struct{ locked bool }

func (m *Mutex) Lock() {
	for m.locked {
		block()
	}
	m.locked = true
}
func (m *Mutex) TryLock() bool {
	if m.locked {
		return false
	}
	m.locked = true
	return true
}
func (m *Mutex) Unlock() {
	if !m.locked {
		panic("sync: unlock of unlocked mutex")
	}
	m.locked = false
}

type RWMutex struct {
	writer  bool
	readers int
}

func (m *RWMutex) Lock() {
	for m.writer || m.readers > 0 {
		block()
	}
	m.writer = true
}
func (m *RWMutex) Unlock() {
	if !m.writer {
		panic("sync: Unlock of unlocked RWMutex")
	}
	m.writer = false
}
func (m *RWMutex) RLock() {
	for m.writer {
		block()
	}
	m.readers++
}
func (m *RWMutex) RUnlock() {
	if m.readers <= 0 {
		panic("sync: RUnlock of unlocked RWMutex")
	}
	m.readers--
}
func (m *RWMutex) TryLock() bool {
	if m.writer || m.readers > 0 {
		return false
	}
	m.writer = true
	return true
}
func (m *RWMutex) TryRLock() bool {
	if m.writer {
		return false
	}
	m.readers++
	return true
}

type Once struct {
	done, running bool
}

func (o *Once) Do(f func()) {
	if o.done {
		return
	}
	for o.running {
		block()
	}
	if o.done {
		return
	}
	o.running = true
	defer func() { o.running = false; o.done = true }()
	f()
}

// PoolChoice decides what Pool.Get returns when the pool holds n>0 items:
// an index in [0,n) or -1 for "pretend the GC emptied the pool".  The harness
// installs a PRNG-driven function; the default is LIFO like the real thing
// usually behaves.
var PoolChoice = func(n int) int { return n - 1 }

// PoolGets / PoolDrops count pool decisions (fault statistics).
var PoolGets, PoolDrops uint64

type Pool struct {
	New   func() any
	items []any
}

func (p *Pool) Get() any {
	PoolGets++
	if n := len(p.items); n > 0 {
		i := PoolChoice(n)
		if i < 0 || i >= n {
			PoolDrops++
			p.items = nil
		} else {
			x := p.items[i]
			p.items = append(p.items[:i], p.items[i+1:]...)
			return x
		}
	}
	if p.New != nil {
		return p.New()
	}
	return nil
}

func (p *Pool) Put(x any) {
	if x == nil {
		return
	}
	p.items = append(p.items, x)
}

// ---------------------------------------------------------------------------
// Package-level state registry (filled by generated zz_simrt_globals.go)
// ---------------------------------------------------------------------------

type Global struct {
	Name string
	Ptr  any // pointer to the variable
}

var Globals []Global

func RegisterGlobal(name string, ptr any) { Globals = append(Globals, Global{name, ptr}) }
