package simrt

import (
	"os"
	"strconv"
	"time"
)

// Latent seams for the process environment. gogpu/naga's library code reads no
// clock, no environment variable, no pid and no random source today; if a tree
// starts to, the instrumenter redirects those calls here and the simulator
// decides what they return: the pristine reference always sees the same fixed
// world (EnvSeed 0), a scenario may see a different one ("environment fault":
// another date, another pid, variables set, another directory). Output that
// depends on any of them then differs from its reference.

// EnvSeed selects the simulated environment of the current scenario.
var EnvSeed uint64

// ProcEnvSeed is the simulated environment that is in force while the process
// starts, i.e. while package-level initialisers of the compiler run (a value
// sampled once per process - `var debug = os.Getenv("X") != ""` - is decided
// here). The driver sets it per OS process through VERIF_PROC_ENV: processes
// that compute pristine references always get 0.
var ProcEnvSeed uint64

func init() {
	if v := os.Getenv("VERIF_PROC_ENV"); v != "" {
		if n, err := strconv.ParseUint(v, 10, 64); err == nil {
			ProcEnvSeed = n
			EnvSeed = n
		}
	}
}

// EnvReads counts calls into these seams (fault statistics).
var EnvReads uint64

var epoch = time.Date(2020, 1, 1, 0, 0, 0, 0, time.UTC)

// TimeNow replaces time.Now.
func TimeNow() time.Time {
	EnvReads++
	if EnvSeed == 0 {
		return epoch
	}
	// a date between 2021 and ~2031, and it advances with the logical clock
	return epoch.Add(time.Duration(365*24+int64(Mix(EnvSeed, 1)%(10*365*24)))*time.Hour + time.Duration(Steps)*time.Microsecond)
}

// TimeSince replaces time.Since.
func TimeSince(t time.Time) time.Duration { return TimeNow().Sub(t) }

// Getenv replaces os.Getenv: unset in the reference world, set to some value
// in others.
func Getenv(key string) string {
	EnvReads++
	if EnvSeed == 0 {
		return ""
	}
	vals := []string{"1", "true", "debug", "/tmp/x", "0"}
	h := Mix(EnvSeed, hashString(key))
	if h%3 == 0 {
		return ""
	}
	return vals[h%uint64(len(vals))]
}

// LookupEnv replaces os.LookupEnv.
func LookupEnv(key string) (string, bool) {
	v := Getenv(key)
	return v, v != ""
}

// Getpid replaces os.Getpid.
func Getpid() int {
	EnvReads++
	if EnvSeed == 0 {
		return 4242
	}
	return 1000 + int(Mix(EnvSeed, 2)%60000)
}

// Getwd replaces os.Getwd.
func Getwd() (string, error) {
	EnvReads++
	if EnvSeed == 0 {
		return "/work", nil
	}
	return "/home/u" + itoa(Mix(EnvSeed, 3)%1000) + "/project", nil
}

// Hostname replaces os.Hostname.
func Hostname() (string, error) {
	EnvReads++
	if EnvSeed == 0 {
		return "host", nil
	}
	return "host-" + itoa(Mix(EnvSeed, 4)%1000), nil
}

// Executable replaces os.Executable.
func Executable() (string, error) {
	EnvReads++
	if EnvSeed == 0 {
		return "/work/app", nil
	}
	return "/opt/v" + itoa(Mix(EnvSeed, 5)%100) + "/app", nil
}

// random sources (math/rand and math/rand/v2 top-level functions)
var randState uint64

func randNext() uint64 {
	EnvReads++
	randState = Mix(randState+EnvSeed, 0x243f6a8885a308d3)
	return randState
}

func RandInt() int             { return int(randNext() >> 1) }
func RandIntn(n int) int       { return int(randNext() % uint64(n)) }
func RandIntN(n int) int       { return int(randNext() % uint64(n)) }
func RandInt63() int64         { return int64(randNext() >> 1) }
func RandInt31n(n int32) int32 { return int32(randNext() % uint64(n)) }
func RandUint32() uint32       { return uint32(randNext()) }
func RandUint64() uint64       { return randNext() }
func RandFloat64() float64     { return float64(randNext()>>11) / (1 << 53) }

func hashString(s string) uint64 {
	h := uint64(14695981039346656037)
	for i := 0; i < len(s); i++ {
		h ^= uint64(s[i])
		h *= 1099511628211
	}
	return h
}

func itoa(n uint64) string {
	if n == 0 {
		return "0"
	}
	var b [20]byte
	i := len(b)
	for n > 0 {
		i--
		b[i] = byte('0' + n%10)
		n /= 10
	}
	return string(b[i:])
}
