package simrt

// Data-race detector for package-level state (invariant I-RACE).
//
// The simulator serialises all tasks, so the Go race detector sees nothing, and
// a conflicting pair of accesses that happens to leave every output unchanged
// (an unlocked read beside a locked write of a memo map, say) is invisible to
// output comparison. But inside the simulator everything needed to decide a
// race by definition is known: who accesses which package-level variable (the
// instrumenter puts Touch(id, write) in front of every statement that mentions
// one), which cooperative locks the task holds at that moment, and which
// operations are ordered by the scenario's happens-before edges. Two accesses
// to one variable by different tasks, at least one a write, not ordered by
// happens-before and with no lock in common, are a data race - in this
// schedule or another.

// Access is one recorded access to a tracked variable.
type Access struct {
	Task, Op int
	Write    bool
	Locks    []any
	Step     uint64
}

// Race is one detected conflicting pair.
type Race struct {
	Var        uint32
	Name       string
	Prev, Curr Access
}

type raceState struct {
	lastWrite map[int]Access // by task
	lastRead  map[int]Access
	reported  bool
}

var (
	raceVars  []raceState
	raceNames = map[uint32]string{}
	// Races collects the races of the current scenario.
	Races []Race
	// HappensBefore is installed by the harness: does operation (ta,oa)
	// complete before operation (tb,ob) starts, by program order and the
	// scenario's dependency edges?
	HappensBefore func(ta, oa, tb, ob int) bool
	// RaceExempt lists variable ids that are not judged (their package uses
	// synchronisation the simulator does not model).
	RaceExempt map[uint32]bool
	// Touches counts Touch calls made by tasks (coverage statistic).
	Touches uint64
)

// RegisterRaceVar is called from generated init code.
func RegisterRaceVar(id uint32, name string) { raceNames[id] = name }

// RaceVarNames exposes the id -> name table.
func RaceVarNames() map[uint32]string { return raceNames }

func resetRaces() {
	raceVars = nil
	Races = nil
	Touches = 0
}

func disjoint(a, b []any) bool {
	for _, x := range a {
		for _, y := range b {
			if x == y {
				return false
			}
		}
	}
	return true
}

// Touch records an access of the running task to package-level variable id.
func Touch(id uint32, write bool) {
	t := cur
	if t == nil {
		return
	}
	Touches++
	if RaceExempt != nil && RaceExempt[id] {
		return
	}
	if int(id) >= len(raceVars) {
		n := make([]raceState, int(id)+64)
		copy(n, raceVars)
		raceVars = n
	}
	rs := &raceVars[id]
	acc := Access{Task: t.ID, Op: t.OpSeq, Write: write, Locks: append([]any(nil), t.locks...), Step: Steps}
	conflict := func(prev Access) {
		if rs.reported || prev.Task == t.ID {
			return
		}
		if HappensBefore != nil && HappensBefore(prev.Task, prev.Op, t.ID, t.OpSeq) {
			return
		}
		if !disjoint(prev.Locks, acc.Locks) {
			return
		}
		rs.reported = true
		Races = append(Races, Race{Var: id, Name: raceNames[id], Prev: prev, Curr: acc})
	}
	for _, w := range rs.lastWrite {
		conflict(w)
	}
	if write {
		for _, r := range rs.lastRead {
			conflict(r)
		}
		if rs.lastWrite == nil {
			rs.lastWrite = map[int]Access{}
		}
		rs.lastWrite[t.ID] = acc
	} else {
		if rs.lastRead == nil {
			rs.lastRead = map[int]Access{}
		}
		rs.lastRead[t.ID] = acc
	}
}

func (t *Task) hold(l any) { t.locks = append(t.locks, l) }

func (t *Task) release(l any) {
	for i := len(t.locks) - 1; i >= 0; i-- {
		if t.locks[i] == l {
			t.locks = append(t.locks[:i], t.locks[i+1:]...)
			return
		}
	}
}
